"""Stand-in mpi4py used by /verif checks (see DESIGN.md section 2).

VF_MPI=absent  -> importing raises ImportError (enspara's DummyComm path)
otherwise      -> thread-per-rank simulated communicator in mpi4py.MPI
"""
import os

if os.environ.get('VF_MPI', 'world') == 'absent':
    raise ImportError("mpi4py stand-in: configured as absent")

__version__ = '0.0-verif-standin'
