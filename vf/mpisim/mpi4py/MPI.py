"""Thread-per-rank simulated MPI communicator; the communicator is the monitor.

Semantics follow mpi4py: lower-case collectives deliver a pickle round-trip
copy to every rank except the root (no aliasing between ranks), Bcast
overwrites the receiver's buffer in place and rejects shape/dtype mismatch,
every collective is a rendezvous of all ranks of the world.
"""
import pickle
import random
import threading
import time

import numpy as np

SUM = 'SUM'
MAX = 'MAX'
MIN = 'MIN'

_tls = threading.local()


class CollectiveMismatch(Exception):
    pass


class RankDied(Exception):
    """Raised in surviving ranks when another rank left the world while
    they wait at a collective (deterministic from liveness, no wall clock)."""


class WorldAborted(Exception):
    pass


class World:
    def __init__(self, size, seed=0, delays=True, watchdog_s=120.0):
        self.size = size
        self.cond = threading.Condition()
        self.seq = 0                # id of the collective being assembled
        self.arrived = {}           # rank -> (kind, root, payload)
        self.results = None
        self.generation = 0
        self.alive = set(range(size))
        self.error = None
        self.log = []               # (seq, kind, root, arrival order)
        self.per_rank_kinds = [[] for _ in range(size)]
        self.delays = delays
        self.rngs = [random.Random((seed << 8) + r) for r in range(size)]
        self.watchdog_s = watchdog_s
        self.watchdog_fired = False

    # -- called by rank threads -------------------------------------------
    def collective(self, rank, kind, root, payload, combine):
        if self.delays:
            r = self.rngs[rank].random()
            if r < 0.35:
                time.sleep(self.rngs[rank].random() * 0.002)
            elif r < 0.7:
                time.sleep(0)
        with self.cond:
            if self.error is not None:
                raise WorldAborted(repr(self.error))
            gen = self.generation
            self.arrived[rank] = (kind, root, payload)
            self.per_rank_kinds[rank].append((kind, root))
            order = self.arrived.setdefault('_order', [])
            order.append(rank)
            if len(order) == self.size:
                try:
                    kinds = {(self.arrived[r][0], self.arrived[r][1])
                             for r in range(self.size)}
                    if len(kinds) != 1:
                        raise CollectiveMismatch(
                            'collective #%d: ranks disagree: %s' % (
                                self.seq, sorted(
                                    (r, self.arrived[r][0], self.arrived[r][1])
                                    for r in range(self.size))))
                    payloads = [self.arrived[r][2] for r in range(self.size)]
                    self.results = combine(payloads)
                    self.log.append((self.seq, kind, root, tuple(order)))
                except Exception as e:  # noqa
                    self.error = e
                    self.cond.notify_all()
                    raise
                self.arrived = {}
                self.seq += 1
                self.generation += 1
                res = self.results
                self.cond.notify_all()
                return res[rank]
            t0 = time.monotonic()
            while self.generation == gen and self.error is None:
                if len(self.alive) < self.size:
                    self.error = RankDied(
                        'collective #%d (%s): rank(s) %s left the world while '
                        'ranks %s wait' % (
                            self.seq, kind,
                            sorted(set(range(self.size)) - self.alive),
                            sorted(order)))
                    self.cond.notify_all()
                    break
                self.cond.wait(0.05)
                if time.monotonic() - t0 > self.watchdog_s:
                    self.watchdog_fired = True
                    self.error = WorldAborted('watchdog')
                    self.cond.notify_all()
                    break
            if self.generation == gen:
                raise self.error if isinstance(self.error, RankDied) \
                    else WorldAborted(repr(self.error))
            return self.results[rank]

    def leave(self, rank):
        with self.cond:
            self.alive.discard(rank)
            self.cond.notify_all()


def _copy(obj):
    return pickle.loads(pickle.dumps(obj, protocol=pickle.HIGHEST_PROTOCOL))


class Comm:
    """COMM_WORLD proxy: resolves the calling thread's (world, rank)."""

    def _wr(self):
        w = getattr(_tls, 'world', None)
        return w, getattr(_tls, 'rank', 0)

    def Get_rank(self):
        return self._wr()[1]

    def Get_size(self):
        w, _ = self._wr()
        return 1 if w is None else w.size

    rank = property(Get_rank)
    size = property(Get_size)

    def _coll(self, kind, root, payload, combine):
        w, r = self._wr()
        if w is None:
            return combine([payload])[0]
        return w.collective(r, kind, root, payload, combine)

    def barrier(self):
        self._coll('barrier', None, None, lambda ps: [None] * len(ps))

    Barrier = barrier

    def bcast(self, obj, root=0):
        w, r = self._wr()
        n = 1 if w is None else w.size
        if not (0 <= root < n):
            raise ValueError('invalid root %r' % (root,))

        def comb(ps):
            data = pickle.dumps(ps[root], protocol=pickle.HIGHEST_PROTOCOL)
            return [ps[i] if i == root else pickle.loads(data)
                    for i in range(len(ps))]
        return self._coll('bcast', root, obj, comb)

    def Bcast(self, buf, root=0):
        w, r = self._wr()
        n = 1 if w is None else w.size
        if not (0 <= root < n):
            raise ValueError('invalid root %r' % (root,))
        if not isinstance(buf, np.ndarray):
            raise TypeError('Bcast needs a buffer-like numpy array')

        def comb(ps):
            src = ps[root]
            for i, p in enumerate(ps):
                if i == root:
                    continue
                if p.nbytes != src.nbytes:
                    raise CollectiveMismatch(
                        'Bcast buffer mismatch: root %s%s vs rank %d %s%s' % (
                            src.dtype, src.shape, i, p.dtype, p.shape))
                if p.dtype != src.dtype or p.shape != src.shape:
                    raise CollectiveMismatch(
                        'Bcast dtype/shape mismatch: root %s%s vs rank %d '
                        '%s%s' % (src.dtype, src.shape, i, p.dtype, p.shape))
                p[...] = src
            return [None] * len(ps)
        return self._coll('Bcast', root, buf, comb)

    def allgather(self, obj):
        def comb(ps):
            data = pickle.dumps(list(ps), protocol=pickle.HIGHEST_PROTOCOL)
            return [pickle.loads(data) for _ in ps]
        return self._coll('allgather', None, obj, comb)

    def gather(self, obj, root=0):
        def comb(ps):
            data = pickle.dumps(list(ps), protocol=pickle.HIGHEST_PROTOCOL)
            return [pickle.loads(data) if i == root else None
                    for i in range(len(ps))]
        return self._coll('gather', root, obj, comb)

    def allreduce(self, obj, op=SUM):
        def comb(ps):
            vals = [_copy(p) for p in ps]
            acc = vals[0]
            for v in vals[1:]:
                if op == SUM:
                    acc = acc + v
                elif op == MAX:
                    acc = np.maximum(acc, v) if isinstance(
                        acc, np.ndarray) else max(acc, v)
                elif op == MIN:
                    acc = np.minimum(acc, v) if isinstance(
                        acc, np.ndarray) else min(acc, v)
                else:
                    raise ValueError(op)
            return [_copy(acc) for _ in ps]
        return self._coll('allreduce:' + str(op), None, obj, comb)

    def Abort(self, errorcode=0):
        w, r = self._wr()
        if w is not None:
            with w.cond:
                w.error = WorldAborted('Abort called by rank %d' % r)
                w.cond.notify_all()
        raise WorldAborted('Abort')


COMM_WORLD = Comm()


def run_world(size, fn, seed=0, delays=True, watchdog_s=120.0):
    """Run fn(rank) on `size` rank threads.  Returns (world, results, errors);
    results[r] is fn's return value or None, errors[r] the exception or None.
    """
    world = World(size, seed=seed, delays=delays, watchdog_s=watchdog_s)
    results = [None] * size
    errors = [None] * size

    def main(r):
        _tls.world = world
        _tls.rank = r
        try:
            results[r] = fn(r)
        except BaseException as e:  # noqa
            errors[r] = e
        finally:
            world.leave(r)
            _tls.world = None
            _tls.rank = 0

    ts = [threading.Thread(target=main, args=(r,), daemon=True)
          for r in range(size)]
    for t in ts:
        t.start()
    for t in ts:
        t.join(watchdog_s * 2)
    return world, results, errors
