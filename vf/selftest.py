"""Sensitivity self-test (not a registered check):
    python -m vf.selftest [CXX ...] [--jobs N] [--only name]
Applies each mutant of vf/mutants/CXX.json to a scratch copy of /repo
(VERIF_REPO=<copy>), runs the quick tier and requires a VIOLATION.  Copies
and their builds are removed immediately."""
import argparse
import concurrent.futures as cf
import json
import os
import shutil
import subprocess
import sys
import time

from . import build

VERIF = build.VERIF


def make_copy(dest):
    shutil.rmtree(dest, ignore_errors=True)
    os.makedirs(dest)
    shutil.copy('/repo/setup.py', dest)
    shutil.copytree('/repo/enspara', os.path.join(dest, 'enspara'),
                    ignore=shutil.ignore_patterns('__pycache__', '*.so',
                                                  '*.c', 'build'))


def run_mutant(prop, m, seed):
    name = m['name']
    dest = os.path.join(build.scratch(), 'mut', '%s-%s' % (prop, name))
    t0 = time.time()
    try:
        make_copy(dest)
        for ed in m['edits']:
            p = os.path.join(dest, ed['file'])
            s = open(p).read()
            if s.count(ed['old']) != 1:
                return name, 'STALE', 'pattern occurs %d times in %s' % (
                    s.count(ed['old']), ed['file']), 0
            open(p, 'w').write(s.replace(ed['old'], ed['new']))
        env = dict(os.environ, VERIF_REPO=dest, VERIF_SEED=str(seed))
        cmd = [build.PY, '-m', 'vf.run', prop, '--tier', 'quick']
        if m.get('kinds'):
            cmd += ['--kinds', m['kinds']]
        p = subprocess.run(cmd, cwd=VERIF, env=env, stdout=subprocess.PIPE,
                           stderr=subprocess.STDOUT, text=True, timeout=3000)
        viol = [l for l in p.stdout.splitlines() if l.startswith('VIOLATION')]
        if p.returncode == 1 and viol:
            keys = sorted({l.split('key=')[1].split(' ')[0] for l in viol
                           if 'key=' in l})
            return name, 'CAUGHT', ', '.join(keys)[:300], time.time() - t0
        return name, 'MISSED', 'rc=%s %s' % (
            p.returncode, p.stdout.strip().splitlines()[-1:]), time.time() - t0
    finally:
        build.remove_builds_of(dest)
        shutil.rmtree(dest, ignore_errors=True)


def main():
    ap = argparse.ArgumentParser()
    ap.add_argument('props', nargs='*')
    ap.add_argument('--jobs', type=int, default=3)
    ap.add_argument('--only')
    ap.add_argument('--seed', type=int, default=0)
    args = ap.parse_args()
    mdir = os.path.join(VERIF, 'vf', 'mutants')
    props = [p.upper() for p in args.props] or sorted(
        f[:-5] for f in os.listdir(mdir) if f.endswith('.json'))
    jobs = []
    for prop in props:
        for m in json.load(open(os.path.join(mdir, prop + '.json'))):
            if args.only and args.only != m['name']:
                continue
            jobs.append((prop, m))
    results = []
    with cf.ThreadPoolExecutor(args.jobs) as ex:
        futs = {ex.submit(run_mutant, p, m, args.seed): (p, m) for p, m in jobs}
        for f in cf.as_completed(futs):
            p, m = futs[f]
            try:
                name, status, info, dt = f.result()
            except Exception as e:  # noqa
                name, status, info, dt = m['name'], 'ERROR', repr(e), 0
            results.append((p, name, status, info))
            print('%-4s %-34s %-7s %5.0fs  %s' % (p, name, status, dt, info),
                  flush=True)
    missed = [r for r in results if r[2] != 'CAUGHT']
    out = os.path.join(VERIF, 'out', 'selftest.json')
    os.makedirs(os.path.dirname(out), exist_ok=True)
    json.dump(results, open(out, 'w'), indent=1)
    print('%d mutants, %d caught, %d not caught' % (
        len(results), len(results) - len(missed), len(missed)))
    return 1 if missed else 0


if __name__ == '__main__':
    sys.exit(main())
