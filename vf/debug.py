"""Debug helper: run cases of a property in-process and print violations.
usage: python -m vf.debug C05 kind start n [variant]"""
import json, os, sys, importlib, collections, re
from vf import build
def main():
    prop, kind, start, n = sys.argv[1], sys.argv[2], int(sys.argv[3]), int(sys.argv[4])
    variant = sys.argv[5] if len(sys.argv) > 5 else 'plain'
    b = build.ensure(variant)
    if os.environ.get('VF_DEBUG_CHILD') != '1':
        env = dict(os.environ, VF_DEBUG_CHILD='1', PYTHONHASHSEED='0', ENSPARA_VERIF='1',
                   PYTHONPATH=os.pathsep.join([os.path.join(build.VERIF,'vf','mpisim'), b, build.VERIF]))
        env.setdefault('VF_MPI', 'world')
        env.setdefault('OMP_NUM_THREADS', '2')
        if os.environ.get('VF_POISON'):
            env['PYTHONPATH'] = build.native('poisonalloc') + os.pathsep + env['PYTHONPATH']
        os.execve(build.PY, [build.PY, '-m', 'vf.debug'] + sys.argv[1:], env)
    import logging; logging.disable(logging.INFO)
    import warnings; warnings.filterwarnings('ignore', message="mpi4py isn't")
    from vf.ctx import Ctx, rng_for
    seed = int(os.environ.get('VERIF_SEED', '0'))
    spec = dict(prop=prop, kind=kind, start=start, n=n, seed=seed, tier=os.environ.get('VERIF_TIER','quick'), variant=variant)
    ctx = Ctx(prop, spec); ctx.MAX_VIOL_PER_KEY = 2
    mod = importlib.import_module('vf.props.' + prop.lower())
    if hasattr(mod, 'setup'): mod.setup(ctx)
    for idx in range(start, start + n):
        ctx.begin_case(idx)
        try:
            mod.run_case(ctx, kind, rng_for(seed, prop, kind, idx), idx)
        except Exception as e:
            ctx.crash('uncaught.%s' % type(e).__name__, e)
    if hasattr(mod, 'teardown'): mod.teardown(ctx)
    r = ctx.result()
    grp = collections.Counter()
    for k, c in r['viol_keys'].items():
        grp[re.sub(r'\[[^\]]*\]', '', k)] += c
    print('counters', json.dumps(r['counters']))
    print('nontrivial', len(r['nontrivial']))
    for k, v in r['sets'].items(): print('set', k, len(v), v[:8])
    print('violation groups:'); 
    for k, c in grp.most_common(): print('  ', c, k)
    shown = collections.Counter()
    for v in r['violations']:
        g = re.sub(r'\[[^\]]*\]', '', v['key'])
        shown[g] += 1
        if shown[g] <= int(os.environ.get('VF_SHOW', '2')):
            print('--', v['key'], 'idx', v['idx'], '::', v['what'][:int(os.environ.get('VF_W','600'))])
            if os.environ.get('VF_DETAIL'): print('   ', json.dumps(v['detail'])[:3000]); print('    case:', json.dumps(v['case'])[:3000])
main()
