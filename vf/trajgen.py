"""Generate small molecular trajectory files with unique-id coordinates."""
import os

import numpy as np


def topology(n_atoms):
    import mdtraj as md
    top = md.Topology()
    ch = top.add_chain()
    for i in range(n_atoms):
        res = top.add_residue('ALA', ch)
        top.add_atom('CA', md.element.carbon, res)
    return top


def unique_xyz(file_id, n_frames, n_atoms):
    """coordinate = file*100 + frame + atom/100 + axis/1000 (exact in
    float32 after xtc precision for h5; xtc keeps 3 decimals)"""
    f = np.arange(n_frames)[:, None, None]
    a = np.arange(n_atoms)[None, :, None]
    x = np.arange(3)[None, None, :]
    return (file_id * 100.0 + f + a / 100.0 + x / 1000.0).astype(np.float32)


def random_xyz(rng, n_frames, n_atoms, scale=1.0):
    base = rng.normal(size=(1, n_atoms, 3)) * scale
    return (base + rng.normal(size=(n_frames, n_atoms, 3)) * 0.3 * scale
            ).astype(np.float32)


def write(dirname, name, xyz, fmt='h5', top=None):
    import mdtraj as md
    if top is None:
        top = topology(xyz.shape[1])
    t = md.Trajectory(xyz, top)
    path = os.path.join(dirname, name + '.' + fmt)
    t.save(path)
    return path


def write_top(dirname, n_atoms, name='top.pdb'):
    import mdtraj as md
    top = topology(n_atoms)
    t = md.Trajectory(np.zeros((1, n_atoms, 3), dtype=np.float32), top)
    p = os.path.join(dirname, name)
    t.save(p)
    return p
