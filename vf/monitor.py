"""Monitors: function wrappers re-bound in every namespace that holds the
function, argument fingerprints (input immutability), sys.monitoring line
probes reading live locals."""
import functools
import hashlib
import sys
import types

import numpy as np


# --------------------------------------------------------------------------
# attach: wrap a function everywhere it is referenced by name
# --------------------------------------------------------------------------

class Hook:
    def __init__(self, name):
        self.name = name
        self.calls = 0
        self.events = []


def attach(owner, name, pre=None, post=None, record=None):
    """Replace owner.<name> (module or class attribute) by a wrapper and
    re-bind every loaded enspara module global that holds the same object.

    pre(args, kwargs) -> token ; post(token, args, kwargs, result, exc)
    record: optional list receiving (args, kwargs, result, exc) tuples.
    Returns a Hook with .calls.
    """
    orig = getattr(owner, name)
    hook = Hook('%s.%s' % (getattr(owner, '__name__', owner), name))

    @functools.wraps(orig)
    def wrapper(*a, **k):
        hook.calls += 1
        tok = pre(a, k) if pre else None
        try:
            res = orig(*a, **k)
        except BaseException as e:  # noqa
            if post:
                post(tok, a, k, None, e)
            if record is not None:
                record.append((a, k, None, e))
            raise
        if post:
            r2 = post(tok, a, k, res, None)
            if r2 is not None:
                res = r2
        if record is not None:
            record.append((a, k, res, None))
        return res
    wrapper.__vf_orig__ = orig
    hook.orig = orig
    setattr(owner, name, wrapper)
    if isinstance(owner, types.ModuleType):
        for mname, m in list(sys.modules.items()):
            if m is None or not mname.startswith('enspara'):
                continue
            for gname, g in list(vars(m).items()):
                if g is orig:
                    setattr(m, gname, wrapper)
    return hook


# --------------------------------------------------------------------------
# fingerprints
# --------------------------------------------------------------------------

def _h(b):
    return hashlib.blake2b(b, digest_size=12).hexdigest()


def fingerprint(o, depth=0):
    """Structural + content fingerprint of array-like arguments."""
    import scipy.sparse as sp
    if isinstance(o, np.ndarray):
        if o.dtype == object:
            return ('objarr', o.shape, tuple(fingerprint(x, depth + 1)
                                             for x in o.ravel()))
        return ('nd', o.shape, str(o.dtype), o.strides,
                _h(np.ascontiguousarray(o).tobytes()))
    if sp.issparse(o):
        parts = []
        for a in ('data', 'indices', 'indptr', 'row', 'col', 'offsets'):
            if hasattr(o, a):
                v = getattr(o, a)
                if isinstance(v, np.ndarray):
                    parts.append((a, fingerprint(v, depth + 1)))
        if o.format == 'lil':
            parts.append(('rows', repr([list(r) for r in o.rows])))
            parts.append(('ldata', repr([list(r) for r in o.data])))
        if o.format == 'dok':
            parts.append(('dok', repr(sorted((k, float(v)) for k, v in
                                             o.items()))))
        return ('sp', o.format, type(o).__name__, o.shape, str(o.dtype),
                tuple(parts))
    if type(o).__name__ == 'RaggedArray':
        return ('ra', fingerprint(o._data, depth + 1),
                fingerprint(np.asarray(o.lengths), depth + 1))
    if isinstance(o, (list, tuple)) and depth < 4:
        if len(o) > 0 and all(isinstance(x, (int, float, np.number))
                              for x in o):
            return (type(o).__name__, repr(o))
        return (type(o).__name__, tuple(fingerprint(x, depth + 1) for x in o))
    if isinstance(o, dict) and depth < 4:
        return ('dict', tuple((k, fingerprint(v, depth + 1))
                              for k, v in sorted(o.items(), key=repr)))
    if isinstance(o, (int, float, str, bool, type(None), np.number)):
        return ('s', repr(o))
    return ('opaque', type(o).__name__)


class Frozen:
    """Snapshot arguments before a call; verify unchanged afterwards."""

    def __init__(self, *args, **kwargs):
        self.objs = list(args) + [kwargs[k] for k in sorted(kwargs)]
        self.names = ['arg%d' % i for i in range(len(args))] + sorted(kwargs)
        self.before = [fingerprint(o) for o in self.objs]

    def changed(self):
        out = []
        for n, o, b in zip(self.names, self.objs, self.before):
            if fingerprint(o) != b:
                out.append(n)
        return out


# --------------------------------------------------------------------------
# line probes (sys.monitoring, 3.12+)
# --------------------------------------------------------------------------

class LineProbe:
    """Fire callback(frame_locals) when the line matching `pattern` of
    function `func` is about to execute."""

    TOOL = None

    def __init__(self, func, pattern, callback):
        import inspect
        self.attached = False
        self.hits = 0
        self.errors = 0
        self.callback = callback
        func = getattr(func, '__vf_orig__', func)
        self.code = func.__code__
        try:
            src, first = inspect.getsourcelines(func)
        except (OSError, TypeError):
            return
        self.line = None
        for i, l in enumerate(src):
            if pattern in l:
                self.line = first + i
                break
        if self.line is None:
            return
        mon = sys.monitoring
        if LineProbe.TOOL is None:
            for tid in (3, 4, 1, 0):
                if mon.get_tool(tid) is None:
                    mon.use_tool_id(tid, 'vf-lineprobe')
                    LineProbe.TOOL = tid
                    LineProbe.probes = {}
                    mon.register_callback(tid, mon.events.LINE,
                                          LineProbe._dispatch)
                    break
        if LineProbe.TOOL is None:
            return
        LineProbe.probes.setdefault(self.code, {})[self.line] = self
        mon.set_local_events(LineProbe.TOOL, self.code, mon.events.LINE)
        self.attached = True

    @staticmethod
    def _dispatch(code, line):
        d = LineProbe.probes.get(code)
        if d is None:
            return sys.monitoring.DISABLE
        p = d.get(line)
        if p is None:
            return sys.monitoring.DISABLE
        p.hits += 1
        fr = sys._getframe(1)
        try:
            p.callback(fr.f_locals)
        except Exception:  # noqa - a probe must never disturb the program
            p.errors += 1
        return None


# --------------------------------------------------------------------------
# threads + yield injection (sys.monitoring LINE events)
# --------------------------------------------------------------------------

class YieldInjector:
    """While active, every LINE event inside the given code objects yields
    the GIL with probability p (time.sleep(0)), so that Python threads running
    those functions interleave at (almost) every line boundary instead of
    every 5 ms.  Counts the yields it injected."""

    TOOL = None

    def __init__(self, funcs, seed, p=0.35):
        import random
        self.codes = set()
        for f in funcs:
            f = getattr(f, '__vf_orig__', f)
            c = getattr(f, '__code__', None)
            if c is not None:
                self.codes.add(c)
        self.rnd = random.Random(seed)
        self.p = p
        self.yields = 0
        self.active = False

    def _cb(self, code, line):
        if code not in self.codes:
            return sys.monitoring.DISABLE
        if self.rnd.random() < self.p:
            self.yields += 1
            import time
            time.sleep(0)
        return None

    def __enter__(self):
        mon = sys.monitoring
        for tid in (2, 5, 4, 1):
            if mon.get_tool(tid) is None:
                mon.use_tool_id(tid, 'vf-yield')
                self.tid = tid
                break
        else:
            self.tid = None
            return self
        mon.register_callback(self.tid, mon.events.LINE, self._cb)
        for c in self.codes:
            mon.set_local_events(self.tid, c, mon.events.LINE)
        self.active = True
        return self

    def __exit__(self, *a):
        if self.tid is not None:
            mon = sys.monitoring
            for c in self.codes:
                mon.set_local_events(self.tid, c, 0)
            mon.register_callback(self.tid, mon.events.LINE, None)
            mon.free_tool_id(self.tid)
        self.active = False


def threaded_differential(jobs, funcs_to_interleave, seed, n_threads=4,
                          timeout=120):
    """jobs: list of zero-argument callables.  Runs each once serially, then
    all of them concurrently from n_threads Python threads with yield
    injection inside `funcs_to_interleave`.  Returns (serial, threaded,
    injector) where the result lists hold ('ok', value) / ('exc', type name);
    threaded entries are None if the deadline passed (inconclusive)."""
    import threading

    def run(j):
        try:
            return ('ok', j())
        except Exception as e:  # noqa
            return ('exc', type(e).__name__)
    serial = [run(j) for j in jobs]
    out = [None] * len(jobs)
    nxt = [0]
    lock = threading.Lock()
    start = threading.Barrier(n_threads)

    def worker():
        try:
            start.wait(timeout=10)
        except threading.BrokenBarrierError:
            pass
        while True:
            with lock:
                i = nxt[0]
                nxt[0] += 1
            if i >= len(jobs):
                return
            out[i] = run(jobs[i])
    inj = YieldInjector(funcs_to_interleave, seed)
    old = sys.getswitchinterval()
    sys.setswitchinterval(1e-5)
    try:
        with inj:
            ts = [threading.Thread(target=worker, daemon=True)
                  for _ in range(n_threads)]
            for t in ts:
                t.start()
            for t in ts:
                t.join(timeout)
    finally:
        sys.setswitchinterval(old)
    return serial, out, inj
