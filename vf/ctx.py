"""Per-worker recording context: counters, non-trivial fingerprints, samples,
violations.  One Ctx per worker subprocess; merged by vf.run."""
import collections
import hashlib
import json
import os
import traceback
import zlib

import numpy as np


def jsonable(o, depth=0):
    """Best-effort conversion of a case description to JSON-safe data."""
    if depth > 6:
        return repr(o)[:200]
    if isinstance(o, (str, int, bool)) or o is None:
        return o
    if isinstance(o, float):
        return o if np.isfinite(o) else repr(o)
    if isinstance(o, (np.integer,)):
        return int(o)
    if isinstance(o, (np.floating,)):
        return jsonable(float(o))
    if isinstance(o, np.bool_):
        return bool(o)
    if isinstance(o, np.ndarray):
        if o.size <= 400:
            return {'ndarray': jsonable(o.tolist(), depth + 1),
                    'dtype': str(o.dtype), 'shape': list(o.shape)}
        return {'ndarray': 'size %d (elided)' % o.size, 'dtype': str(o.dtype),
                'shape': list(o.shape),
                'sha': hashlib.sha1(np.ascontiguousarray(o).tobytes()
                                    ).hexdigest()[:12]}
    if isinstance(o, dict):
        return {str(k): jsonable(v, depth + 1) for k, v in o.items()}
    if isinstance(o, (list, tuple, set, frozenset)):
        return [jsonable(v, depth + 1) for v in o]
    if isinstance(o, slice):
        return 'slice(%r,%r,%r)' % (o.start, o.stop, o.step)
    return repr(o)[:300]


def rng_for(seed, prop, kind, idx):
    return np.random.default_rng(
        [int(seed) & 0xffffffff, zlib.crc32((prop + ':' + kind).encode()),
         int(idx)])


class Ctx:
    MAX_SAMPLES = 3
    MAX_VIOL_PER_KEY = 4

    def __init__(self, prop, spec):
        self.prop = prop
        self.spec = spec
        self.counters = collections.Counter()
        self.nontrivial = set()
        self.samples = []
        self.violations = []
        self._viol_keys = collections.Counter()
        self.case_idx = None
        self.case_desc = None
        self.info = {}          # free-form per-shard info (sets as lists)
        self.sets = collections.defaultdict(set)
        self.progress_path = spec.get('progress')
        self._pf = open(self.progress_path, 'a') if self.progress_path else None

    # -- lifecycle ---------------------------------------------------------
    def begin_case(self, idx):
        self.case_idx = idx
        self.case_desc = None
        self.counters['evaluations'] += 1
        if self._pf:
            self._pf.write('%d\n' % idx)
            self._pf.flush()

    def describe(self, desc):
        """Attach a JSON-able description of the current case (inputs)."""
        self.case_desc = desc

    # -- recording ---------------------------------------------------------
    def count(self, name, n=1):
        self.counters[name] += n

    def seen(self, name, value):
        """Record a distinct observed value under `name` (bounded)."""
        s = self.sets[name]
        if len(s) < 5000:
            s.add(value if isinstance(value, (str, int)) else
                  json.dumps(jsonable(value), sort_keys=True))

    def nontriv(self, *parts):
        h = hashlib.sha1(repr(parts).encode()).hexdigest()[:16]
        self.nontrivial.add(h)

    def sample(self, obj):
        if len(self.samples) < self.MAX_SAMPLES:
            self.samples.append(jsonable(obj))

    def violation(self, key, what, detail=None):
        self._viol_keys[key] += 1
        self.counters['violations_raw'] += 1
        if self._viol_keys[key] > self.MAX_VIOL_PER_KEY:
            return
        self.violations.append({
            'key': key, 'what': str(what)[:2000],
            'kind': self.spec.get('kind'), 'idx': self.case_idx,
            'case': jsonable(self.case_desc),
            'detail': jsonable(detail)})

    def check(self, cond, key, what, detail=None):
        if not cond:
            self.violation(key, what() if callable(what) else what, detail)
        return cond

    def crash(self, key, exc):
        self.violation(key, '%s: %s' % (type(exc).__name__, exc),
                       {'traceback': traceback.format_exc()[-3000:]})

    def result(self):
        return {
            'counters': dict(self.counters),
            'nontrivial': sorted(self.nontrivial),
            'samples': self.samples,
            'violations': self.violations,
            'viol_keys': dict(self._viol_keys),
            'sets': {k: sorted(v) for k, v in self.sets.items()},
            'info': jsonable(self.info),
        }
