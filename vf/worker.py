"""Worker subprocess: executes a contiguous range of cases of one shard spec.

usage: python -m vf.worker <spec.json> <out.json>
"""
import importlib
import json
import os
import sys
import time
import warnings


def san_files(prefix):
    import glob
    return sorted(glob.glob(prefix + '.*'))


def san_size(prefix):
    return sum(os.path.getsize(f) for f in san_files(prefix))


def san_tail(prefix, offset):
    txt = ''.join(open(f, errors='replace').read() for f in san_files(prefix))
    return txt[offset:]


def subnormals_survive():
    """Floating-point environment probe: False when this thread runs with
    flush-to-zero / denormals-are-zero (as set process-wide by crtfastmath.o
    when a shared object is linked with -ffast-math / -Ofast).  Operands come
    from run-time values so that nothing is folded at compile time."""
    x = float.fromhex('0x0.0000000000001p-1022')
    one = float(len(sys.argv) > 0)
    return (x * one) != 0.0 and (float.fromhex('0x1p-1022') * 0.5 * one) != 0.0


_LOG_STATE = {}


def set_debug_logging(on):
    import logging
    root = logging.getLogger()
    if not _LOG_STATE:
        _LOG_STATE['null'] = logging.NullHandler()
        _LOG_STATE['handlers'] = None
    lg = logging.getLogger('enspara')
    if on:
        if _LOG_STATE['handlers'] is None:
            _LOG_STATE['handlers'] = list(root.handlers)
            _LOG_STATE['root_level'] = root.level
        for h in list(root.handlers):
            root.removeHandler(h)
        root.addHandler(_LOG_STATE['null'])
        logging.disable(logging.NOTSET)
        lg.setLevel(logging.DEBUG)
    else:
        if _LOG_STATE['handlers'] is not None:
            root.removeHandler(_LOG_STATE['null'])
            for h in _LOG_STATE['handlers']:
                root.addHandler(h)
            _LOG_STATE['handlers'] = None
        lg.setLevel(logging.NOTSET)
        logging.disable(logging.INFO)


def main():
    fp_ok_at_start = subnormals_survive()
    spec = json.load(open(sys.argv[1]))
    out = sys.argv[2]
    prop = spec['prop']
    import faulthandler
    faulthandler.enable()
    warnings.filterwarnings('ignore', message="mpi4py isn't installed")
    import logging
    logging.disable(logging.INFO)
    import enspara
    bdir = spec['build']
    if not os.path.realpath(enspara.__file__).startswith(
            os.path.realpath(bdir) + os.sep):
        print('INCONCLUSIVE property=%s reason=enspara imported from %s not %s'
              % (prop, enspara.__file__, bdir))
        sys.exit(3)
    logging.disable(logging.INFO)
    from vf.ctx import Ctx, rng_for
    ctx = Ctx(prop, spec)
    mod = importlib.import_module('vf.props.' + prop.lower())
    t0 = time.time()
    if hasattr(mod, 'setup'):
        mod.setup(ctx)
    # parameter order of the public callables against the committed snapshot
    try:
        from vf import sigsnap
        snap = json.load(open(sigsnap.PATH))
        moved = sigsnap.compare(snap, sigsnap.current())
        ctx.counters['signatures_compared'] += len(snap)
        for name, msg in moved:
            ctx.case_idx, ctx.case_desc = spec['start'], {'callable': name}
            ctx.violation('api.parameter-order-changed[%s]' % name, msg)
    except FileNotFoundError:
        pass
    budget = spec.get('budget_s')
    done = 0
    san_prefix = spec.get('san_log') if spec.get('variant') == 'tsan' else None
    san_seen = 0
    for idx in range(spec['start'], spec['start'] + spec['n']):
        if budget and time.time() - t0 > budget and done >= spec.get(
                'min_cases', 1):
            ctx.count('cases_skipped_budget', spec['start'] + spec['n'] - idx)
            break
        rng = rng_for(spec['seed'], prop, spec['kind'], idx)
        ctx.begin_case(idx)
        # process-level state the library may consult: every seventh case
        # runs with the library's loggers at DEBUG (records are created and
        # dropped by a null handler), the others with logging switched off
        set_debug_logging(idx % 7 == 3)
        if idx % 7 == 3:
            ctx.counters['cases_at_debug_log_level'] += 1
        # numpy's print options are process state as well (str() of an array
        # is abbreviated beyond `threshold` elements)
        import numpy as _np
        if idx % 7 == 5:
            _np.set_printoptions(threshold=6, edgeitems=1, precision=2)
            ctx.counters['cases_with_terse_print_options'] += 1
        else:
            _np.set_printoptions(threshold=1000, edgeitems=3, precision=8)
        # per-case watchdog (a C-level thread of faulthandler, so it fires
        # even when the interpreter is stuck in native code or in a
        # deadlocked allocator after heap corruption): the process exits,
        # the driver records the case as hung (inconclusive) and goes on
        # behind it
        faulthandler.dump_traceback_later(
            spec.get('case_timeout', int(os.environ.get('VF_CASE_TIMEOUT',
                                                        600))), exit=True)
        try:
            mod.run_case(ctx, spec['kind'], rng, idx)
        except Exception as e:  # noqa
            ctx.crash('uncaught.%s' % type(e).__name__, e)
        finally:
            faulthandler.cancel_dump_traceback_later()
        done += 1
        if san_prefix:
            # ThreadSanitizer keeps running after a report: attribute new
            # report text to the case that just ran
            sz = san_size(san_prefix)
            if sz > san_seen:
                txt = san_tail(san_prefix, san_seen)
                san_seen = sz
                import re
                heads = re.findall(r'WARNING: ThreadSanitizer: [^\n]*', txt)
                fn = re.findall(r'#\d+ (\S+) [^\n]*enspara', txt)
                ctx.violation('tsan.%s' % (
                    heads[0].split(': ')[-1].split(' (')[0].replace(' ', '-')
                    if heads else 'report'),
                    '%d ThreadSanitizer report(s) during this case; frames '
                    'in enspara: %s' % (len(heads), sorted(set(fn))[:6]),
                    {'excerpt': txt[:3000]})
    if hasattr(mod, 'teardown'):
        mod.teardown(ctx)
    ctx.counters['fp_environment_probes'] += 1
    if fp_ok_at_start and not subnormals_survive():
        # importing / running the library changed the floating-point mode of
        # the process: every result on subnormal data is silently flushed to
        # zero, in the library and in the caller's own NumPy code alike
        ctx.case_desc = {'probe': 'subnormal * 1.0'}
        ctx.violation('process.fp-environment.flush-to-zero',
                      'subnormal numbers survived arithmetic when the worker '
                      'started and are flushed to zero after importing and '
                      'running the extension modules (FTZ/DAZ set, e.g. by a '
                      'shared object linked with -Ofast / -ffast-math)')
    res = ctx.result()
    res['wall_s'] = time.time() - t0
    res['completed'] = True
    tmp = out + '.tmp'
    with open(tmp, 'w') as f:
        json.dump(res, f)
    os.rename(tmp, out)
    sys.stdout.flush()
    os._exit(0)     # skip atexit/finalizers of sanitized runtimes


if __name__ == '__main__':
    main()
