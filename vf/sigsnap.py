"""Parameter-order snapshot of the public callables the checks drive.

    python -m vf.sigsnap            # (re)write vf/signatures.json from the
                                    # tree under VERIF_REPO / /repo

Workers compare the functions they import with this snapshot: an existing
parameter that moved or disappeared changes what every positional caller
gets (new trailing parameters are fine)."""
import importlib
import inspect
import json
import os

MODULES = ['enspara.cluster.kcenters', 'enspara.cluster.kmedoids',
           'enspara.cluster.hybrid', 'enspara.cluster.util',
           'enspara.msm.transition_matrices', 'enspara.msm.builders',
           'enspara.msm.timescales', 'enspara.msm.msm', 'enspara.msm.bace',
           'enspara.tpt.core', 'enspara.tpt.tpt', 'enspara.tpt.path',
           'enspara.info_theory.mutual_info', 'enspara.info_theory.entropy',
           'enspara.info_theory.exposons', 'enspara.ra.ra',
           'enspara.geometry.rotamer', 'enspara.cards.disorder',
           'enspara.cards.featurizers', 'enspara.mpi.ops', 'enspara.mpi.io',
           'enspara.util.load']
PATH = os.path.join(os.path.dirname(os.path.abspath(__file__)),
                    'signatures.json')


def current():
    out = {}
    for m in MODULES:
        try:
            mod = importlib.import_module(m)
        except Exception:  # noqa
            continue
        for name, obj in sorted(vars(mod).items()):
            if name.startswith('__'):
                continue
            targets = []
            if inspect.isfunction(obj) and obj.__module__ == m:
                targets.append((name, obj))
            elif inspect.isclass(obj) and obj.__module__ == m:
                for mn, mo in sorted(vars(obj).items()):
                    f = getattr(mo, '__func__', mo)
                    if inspect.isfunction(f) and (not mn.startswith('_')
                                                  or mn == '__init__'):
                        targets.append(('%s.%s' % (name, mn), f))
            for tn, f in targets:
                f = getattr(f, '__vf_orig__', f)
                try:
                    ps = [p.name for p in inspect.signature(f).parameters
                          .values() if p.kind in (p.POSITIONAL_ONLY,
                                                  p.POSITIONAL_OR_KEYWORD)]
                except (TypeError, ValueError):
                    continue
                out['%s.%s' % (m, tn)] = ps
    return out


def compare(snapshot, now):
    """-> list of (qualified name, message)"""
    bad = []
    for k, old in snapshot.items():
        new = now.get(k)
        if new is None:
            continue            # removed / renamed callables: not our claim
        if new[:len(old)] != old:
            bad.append((k, 'positional parameters were %s, are %s' % (
                old, new)))
    return bad


if __name__ == '__main__':
    import sys
    from vf import build
    sys.path[:0] = [os.path.join(build.VERIF, 'vf', 'mpisim'),
                    build.ensure('plain')]
    snap = current()
    json.dump(snap, open(PATH, 'w'), indent=0, sort_keys=True)
    print('%d callables -> %s' % (len(snap), PATH))
