"""Driver: ./check <ID> [--tier quick|thorough] [--replay file]

Builds the needed variants from $VERIF_REPO's working tree, fans the
property's shard specs out to worker subprocesses (never multiprocessing.Pool),
merges what the monitors recorded, classifies violations against
known_findings.json, writes evidence/<ID>.json and prints the verdict.
exit 0 held on what was observed / 1 violation / 2 inconclusive.
"""
import argparse
import collections
import fnmatch
import concurrent.futures as cf
import glob
import importlib
import json
import os
import re
import shutil
import subprocess
import sys
import time

from . import build

VERIF = build.VERIF
PY = build.PY


def load_known():
    p = os.path.join(VERIF, 'known_findings.json')
    if not os.path.exists(p):
        return []
    return json.load(open(p))['findings']


def worker_env(spec, bdir, rundir, tag):
    env = dict(os.environ)
    for k in ('LD_PRELOAD', 'PYTHONSTARTUP'):
        env.pop(k, None)
    env['ENSPARA_VERIF'] = '1'
    env['PYTHONHASHSEED'] = '0'
    env['PYTHONDONTWRITEBYTECODE'] = '1'
    env['VF_MPI'] = spec.get('mpi', 'world')
    env['PYTHONPATH'] = os.pathsep.join(
        [os.path.join(VERIF, 'vf', 'mpisim'), bdir, VERIF])
    env.setdefault('OMP_NUM_THREADS', '2')
    # many worker processes x many OpenMP threads: do not spin-wait
    env.setdefault('OMP_WAIT_POLICY', 'passive')
    env.setdefault('GOMP_SPINCOUNT', '0')
    env['MPLBACKEND'] = 'Agg'
    env['VF_RUNDIR'] = rundir
    variant = spec.get('variant', 'plain')
    if variant == 'asan':
        env['LD_PRELOAD'] = build.sanitizer_lib('asan')
        logp = os.path.join(rundir, 'san.%s' % tag)
        env['ASAN_OPTIONS'] = ('detect_leaks=0:abort_on_error=0:exitcode=66:'
                               'halt_on_error=1:allocator_may_return_null=1:'
                               'log_path=%s' % logp)
        env['UBSAN_OPTIONS'] = ('print_stacktrace=1:halt_on_error=1:'
                                'exitcode=66:log_path=%s' % logp)
        spec['san_log'] = logp
    elif variant == 'tsan':
        hb = build.native('gomp_hb')
        env['LD_PRELOAD'] = build.sanitizer_lib('tsan') + ':' + hb
        logp = os.path.join(rundir, 'san.%s' % tag)
        env['TSAN_OPTIONS'] = ('halt_on_error=0:exitcode=0:report_signal_unsafe=0:'
                               'history_size=4:log_path=%s' % logp)
        env['VF_GOMP_HB_LOG'] = os.path.join(rundir, 'hb.%s' % tag)
        spec['san_log'] = logp
    if spec.get('poison'):
        env['PYTHONPATH'] = build.native('poisonalloc') + os.pathsep + \
            env['PYTHONPATH']
    for k, v in spec.get('env', {}).items():
        env[k] = str(v)
    return env


def san_reports(prefix):
    """Parse sanitizer logs written under log_path prefix."""
    reps = []
    for f in sorted(glob.glob(prefix + '.*')):
        try:
            txt = open(f, errors='replace').read()
        except OSError:
            continue
        for m in re.finditer(
                r'(ERROR: AddressSanitizer[^\n]*|WARNING: ThreadSanitizer[^\n]*'
                r'|[^\n]*runtime error:[^\n]*)', txt):
            start = m.start()
            reps.append({'head': m.group(1).strip()[:300],
                         'excerpt': txt[start:start + 2500]})
    return reps


def run_spec(spec, bdir, rundir, tag):
    """Run one shard spec to completion, restarting after sanitizer/hard
    crashes so one defect does not mask the rest.  Returns list of results."""
    results = []
    start, end = spec['start'], spec['start'] + spec['n']
    attempt = 0
    while start < end and attempt < 12:
        s = dict(spec)
        s['start'], s['n'] = start, end - start
        s['build'] = bdir
        t = '%s.%d' % (tag, attempt)
        s['progress'] = os.path.join(rundir, 'progress.%s' % t)
        env = worker_env(s, bdir, rundir, t)
        sp = os.path.join(rundir, 'spec.%s.json' % t)
        op = os.path.join(rundir, 'out.%s.json' % t)
        json.dump(s, open(sp, 'w'))
        timeout = spec.get('timeout', 900)
        t0 = time.time()
        try:
            p = subprocess.run([PY, '-m', 'vf.worker', sp, op], env=env,
                               cwd=VERIF, stdout=subprocess.PIPE,
                               stderr=subprocess.STDOUT, timeout=timeout,
                               text=True, errors='replace')
            rc, outtxt = p.returncode, p.stdout
        except subprocess.TimeoutExpired as e:
            rc, outtxt = 'timeout', (e.stdout or b'')
            if isinstance(outtxt, bytes):
                outtxt = outtxt.decode(errors='replace')
        reports = san_reports(s['san_log']) if 'san_log' in s else []
        if os.path.exists(op):
            r = json.load(open(op))
            r['spec'] = s
            r['san_reports'] = reports
            results.append(r)
            break
        # abnormal end: find the case that was running
        last = None
        try:
            lines = open(s['progress']).read().split()
            last = int(lines[-1]) if lines else None
        except OSError:
            pass
        if rc == 1 and re.search(r'Timeout \(\d+:\d\d:\d\d\)!', outtxt or ''):
            rc = 'case-hang'
        r = {'spec': s, 'completed': False, 'rc': rc, 'last_idx': last,
             'tail': outtxt[-3000:], 'san_reports': reports,
             'counters': {'evaluations': (last - start + 1) if last is not None
                          else 0},
             'nontrivial': [], 'samples': [], 'violations': [], 'sets': {},
             'viol_keys': {}, 'info': {}}
        results.append(r)
        if last is None or rc == 'timeout' or rc == 3:
            break
        if rc == 'case-hang':
            hangs = sum(1 for x in results if x.get('rc') == 'case-hang')
            if hangs >= 2:
                break
        start = last + 1
        attempt += 1
    return results


class Specs:
    def __init__(self, mod):
        self.mod = mod

    def shards(self, tier):
        out = []
        for s in self.mod.shards(tier):
            s = dict(s)
            parts = s.pop('parts', 1)
            n = s['n']
            start = s.get('start', 0)
            per = -(-n // parts)
            for i in range(parts):
                a = start + i * per
                b = min(start + n, a + per)
                if b > a:
                    out.append(dict(s, start=a, n=b - a))
        return out

    def required_counters(self):
        return list(getattr(self.mod, 'REQUIRED', []))

    def rule(self):
        return self.mod.RULE

    def assumptions(self):
        return list(getattr(self.mod, 'ASSUMPTIONS', []))


def classify(prop, v, known):
    for k in known:
        if k['property'] == prop and (k['key'] == v['key'] or (
                k.get('pattern') and fnmatch.fnmatchcase(v['key'], k['key']))):
            return k
    return None


def main(argv=None):
    ap = argparse.ArgumentParser()
    ap.add_argument('prop')
    ap.add_argument('--tier', default=os.environ.get('VERIF_TIER', 'quick'),
                    choices=['quick', 'thorough'])
    ap.add_argument('--replay')
    ap.add_argument('--jobs', type=int, default=int(os.environ.get(
        'VERIF_JOBS', '16')))
    ap.add_argument('--kinds', help='comma list: restrict to these kinds')
    args = ap.parse_args(argv)
    prop = args.prop.upper()
    try:
        seed = int(os.environ.get('VERIF_SEED', '0') or 0)
    except ValueError:
        seed = 0
    t00 = time.time()
    sys.path.insert(0, VERIF)
    mod_name = 'vf.props.' + prop.lower()
    rundir = os.path.join(VERIF, 'out', 'run', '%s-%d' % (prop, os.getpid()))
    shutil.rmtree(rundir, ignore_errors=True)
    os.makedirs(rundir)
    # property modules import enspara lazily (in setup()), so the driver can
    # read their shard specs without the build on its path
    specs_mod = Specs(importlib.import_module(mod_name))
    if args.replay:
        rp = json.load(open(args.replay))
        spec = rp['spec']
        spec['start'], spec['n'] = rp['idx'], 1
        if rp.get('idx') is None:
            spec['start'], spec['n'] = rp['spec']['start'], rp['spec']['n']
        spec.pop('budget_s', None)
        specs = [spec]
        seed = spec['seed']
        tier = spec.get('tier', args.tier)
    else:
        tier = args.tier
        specs = specs_mod.shards(tier)
        for s in specs:
            s.update(prop=prop, seed=seed, tier=tier)
        if args.kinds:
            ks = set(args.kinds.split(','))
            specs = [s for s in specs if s['kind'] in ks]
    variants = sorted({s.get('variant', 'plain') for s in specs})
    bdirs = {}
    try:
        for v in variants:
            bdirs[v] = build.ensure(v)
    except Exception as e:  # noqa
        print('INCONCLUSIVE property=%s reason=build failed: %s' % (prop, e))
        return 2
    build_s = time.time() - t00
    all_results = []
    with cf.ThreadPoolExecutor(max_workers=args.jobs) as ex:
        futs = []
        for i, s in enumerate(specs):
            futs.append(ex.submit(run_spec, s, bdirs[s.get('variant', 'plain')],
                                  rundir, 's%d' % i))
        for f in futs:
            all_results.extend(f.result())

    # ---- merge -----------------------------------------------------------
    known = load_known()
    counters = collections.Counter()
    nontriv = set()
    samples = []
    sets = collections.defaultdict(set)
    violations = []
    inconclusive = []
    per_kind = collections.Counter()
    for r in all_results:
        s = r['spec']
        for k, v in r['counters'].items():
            counters[k] += v
        per_kind[s['kind'] + '/' + s.get('variant', 'plain')] += \
            r['counters'].get('evaluations', 0)
        nontriv.update(r['nontrivial'])
        if len(samples) < 6:
            samples.extend(r['samples'][:2])
        for k, v in r['sets'].items():
            sets[k].update(v)
        for v in r['violations']:
            v['spec'] = {k: s[k] for k in s if k not in ('progress', 'build')}
            violations.append(v)
        if not r.get('completed'):
            reps = r.get('san_reports') or []
            if r['rc'] == 'timeout':
                inconclusive.append('watchdog expired in kind=%s' % s['kind'])
            elif r['rc'] == 'case-hang':
                inconclusive.append(
                    'case %s of kind=%s did not finish within the per-case '
                    'watchdog (replay: --kinds %s, idx %s)' % (
                        r['last_idx'], s['kind'], s['kind'], r['last_idx']))
            elif r['rc'] == 3:
                inconclusive.append(r['tail'].strip()[-300:])
            elif reps:
                head = reps[-1]['head']
                key = 'sanitizer.' + (
                    'asan' if 'AddressSanitizer' in head else (
                        'tsan' if 'ThreadSanitizer' in head else 'ubsan'))
                m = re.search(r'AddressSanitizer: ([\w-]+)', head)
                if m:
                    key += '.' + m.group(1)
                violations.append({
                    'key': key, 'what': head, 'kind': s['kind'],
                    'idx': r['last_idx'], 'case': None,
                    'detail': {'excerpt': reps[-1]['excerpt']},
                    'spec': {k: s[k] for k in s if k not in (
                        'progress', 'build')}})
            else:
                violations.append({
                    'key': 'process.crash', 'what': 'worker died rc=%s' % r['rc'],
                    'kind': s['kind'], 'idx': r['last_idx'], 'case': None,
                    'detail': {'tail': r['tail']},
                    'spec': {k: s[k] for k in s if k not in (
                        'progress', 'build')}})
        elif s.get('variant') == 'tsan':
            reps = r.get('san_reports') or []
            counters['tsan_report_blocks'] += len(reps)
            if reps and not any(v['key'].startswith('tsan.')
                                for v in r['violations']):
                violations.append({
                    'key': 'tsan.unattributed', 'what': reps[0]['head'],
                    'kind': s['kind'], 'idx': None, 'case': None,
                    'detail': {'excerpt': reps[0]['excerpt']},
                    'spec': {k: s[k] for k in s if k not in (
                        'progress', 'build')}})

    # ---- verdict ---------------------------------------------------------
    replay_dir = os.path.join(VERIF, 'out', 'replay', prop)
    os.makedirs(replay_dir, exist_ok=True)
    known_hit = collections.OrderedDict()
    new = []
    for v in violations:
        k = classify(prop, v, known)
        if k is not None and k.get('status') == 'known':
            known_hit.setdefault(k['key'], [k, 0])
            known_hit[k['key']][1] += 1
        else:
            new.append(v)
    lines = []
    for key, (k, n) in known_hit.items():
        lines.append('KNOWN-FINDING: property=%s %s [%s] (%d case(s) this run)'
                     % (prop, k['what'], key, n))
    seen_keys = collections.Counter()
    for v in new:
        seen_keys[v['key']] += 1
        if seen_keys[v['key']] > 2 or len(seen_keys) > 12:
            continue
        name = re.sub(r'[^A-Za-z0-9_.-]', '_', '%s-%s-%s-seed%d.json' % (
            v['key'], v['kind'], v['idx'], seed))
        path = os.path.join(replay_dir, name)
        json.dump({'property': prop, 'key': v['key'], 'what': v['what'],
                   'idx': v['idx'], 'spec': v['spec'], 'case': v['case'],
                   'detail': v['detail']}, open(path, 'w'), indent=1)
        lines.append('VIOLATION property=%s replay=%s key=%s :: %s' % (
            prop, os.path.relpath(path, VERIF), v['key'],
            v['what'].replace('\n', ' ')[:300]))

    # deciding-monitor reachability
    need = specs_mod.required_counters() if not args.replay else []
    for c in need:
        if counters.get(c, 0) == 0:
            inconclusive.append('deciding monitor %s observed nothing' % c)
    if not args.replay and len(nontriv) < 2:
        inconclusive.append('fewer than 2 distinct non-trivial cases')

    wall = time.time() - t00
    cov = {
        'evaluations': int(counters.get('evaluations', 0)),
        'distinct_nontrivial': len(nontriv),
        'rule': specs_mod.rule(),
        'samples': samples[:6] or ['(none recorded)'],
        'per_kind_evaluations': dict(per_kind),
        'monitor_counters': {k: int(v) for k, v in sorted(counters.items())
                             if k != 'evaluations'},
        'distinct_observed': {k: len(v) for k, v in sets.items()},
        'distinct_observed_examples': {k: sorted(v)[:12]
                                       for k, v in sets.items()},
        'known_findings_hit': {k: n for k, (_, n) in known_hit.items()},
        'build_variants': variants,
        'tree_hash': build.tree_hash(),
        'build_s': round(build_s, 1),
        'inconclusive_reasons': inconclusive,
    }
    ev = {
        'property_id': prop, 'tier': tier, 'seed': seed,
        'level': 'exploration', 'coverage': cov,
        'assumptions': specs_mod.assumptions(),
        'wall_s': round(wall, 2), 'violations': len(new),
    }
    if not args.replay:
        # evidence of runs against a scratch copy (self-test, seeded faults)
        # must not overwrite the evidence of /repo itself
        evdir = os.environ.get('VF_EVIDENCE_DIR') or os.path.join(
            VERIF, 'evidence' if os.path.realpath(build.repo()) ==
            os.path.realpath('/repo') else 'out/evidence-scratch')
        os.makedirs(evdir, exist_ok=True)
        tmp = os.path.join(evdir, prop + '.json.tmp%d' % os.getpid())
        json.dump(ev, open(tmp, 'w'), indent=1, sort_keys=True)
        os.rename(tmp, os.path.join(evdir, prop + '.json'))
    for ln in lines:
        print(ln)
    if len(seen_keys) > 12:
        print('... %d distinct violation keys in total (first 12 shown): %s' % (
            len(seen_keys), ' '.join(sorted(seen_keys)[:60])))
    print('%s tier=%s seed=%d evaluations=%d distinct_nontrivial=%d '
          'violations=%d known=%d wall=%.1fs' % (
              prop, tier, seed, cov['evaluations'], len(nontriv), len(new),
              len(known_hit), wall))
    if not os.environ.get('VF_KEEP'):
        shutil.rmtree(rundir, ignore_errors=True)
    if new:
        return 1
    if inconclusive:
        for r in inconclusive:
            print('INCONCLUSIVE property=%s reason=%s' % (prop, r))
        return 2
    return 0


if __name__ == '__main__':
    sys.exit(main())
