"""Shared generators / reference metric / result oracle for the clustering
properties (C01, C02, C09, C10, C14)."""
import numpy as np

DTYPES = [np.float64, np.float32, np.int32, np.int64]


def ref_metric(name):
    """Independent float64 NumPy metric (never calls libdist)."""
    if name == 'euclidean':
        return lambda X, y: np.sqrt(((np.asarray(X, dtype=np.float64) -
                                      np.asarray(y, dtype=np.float64)) ** 2
                                     ).sum(axis=1))
    if name in ('manhattan', 'cityblock'):
        return lambda X, y: np.abs(np.asarray(X, dtype=np.float64) -
                                   np.asarray(y, dtype=np.float64)).sum(axis=1)
    if name == 'chebyshev':
        return lambda X, y: np.abs(np.asarray(X, dtype=np.float64) -
                                   np.asarray(y, dtype=np.float64)).max(axis=1)
    raise KeyError(name)


def chebyshev_callable(X, y):
    """User-callable metric handed to enspara (NumPy, returns shape (n,))."""
    return np.abs(X.astype(np.float64) - y.astype(np.float64)).max(axis=1)


_BUF = {}


def chebyshev_callable_buf(X, y):
    """The same metric written the allocation-free way: every call returns
    a view of one reused output buffer (like libdist's own out=).  Whoever
    keeps a returned array across the next call sees it overwritten."""
    n = len(X)
    buf = _BUF.get('b')
    if buf is None or len(buf) < n:
        buf = _BUF['b'] = np.empty(max(n, 64))
    out = buf[:n]
    np.max(np.abs(X.astype(np.float64) - y.astype(np.float64)), axis=1,
           out=out)
    return out


def metric_arg(name, rng=None):
    if name != 'chebyshev':
        return name
    if rng is not None and rng.random() < 0.3:
        return chebyshev_callable_buf
    return chebyshev_callable


def gen_data(rng, nmax=60, dmax=6, nmin=2, dtype=None, geom=None):
    """Data set of distinct points.  Returns (X, info)."""
    n = int(rng.integers(nmin, nmax + 1))
    d = int(rng.integers(1, dmax + 1))
    if rng.random() < 0.05:
        d = int(rng.integers(20, 60))        # occasionally many features
    if dtype is None:
        dtype = DTYPES[int(rng.integers(0, len(DTYPES)))]
    if geom is None:
        geom = ['uniform', 'clustered', 'collinear', 'lattice'][
            int(rng.integers(0, 4))]
    isint = np.issubdtype(dtype, np.integer)
    if geom == 'uniform':
        X = rng.uniform(-10, 10, size=(n, d))
    elif geom == 'clustered':
        k = int(rng.integers(1, 6))
        ctrs = rng.uniform(-20, 20, size=(k, d))
        X = ctrs[rng.integers(0, k, size=n)] + rng.normal(0, 1.0, size=(n, d))
    elif geom == 'collinear':
        t = rng.uniform(-10, 10, size=(n, 1))
        v = rng.normal(size=(1, d))
        X = t * v + rng.normal(size=(1, d))
    else:  # lattice: many equal distances
        side = int(np.ceil(n ** (1.0 / d))) + 1
        X = rng.integers(0, side, size=(n, d)).astype(float)
    if isint:
        X = np.round(X * (1 if geom == 'lattice' else 5))
    elif rng.random() < 0.2:
        X = X * float(10.0 ** int(rng.integers(-6, 7)))   # tiny / huge units
    elif rng.random() < 0.06:
        # far outside ordinary magnitudes (still nowhere near under/overflow):
        # nothing in the algorithms may carry an absolute threshold
        X = X * float(10.0 ** [-20, -18, -12, 12, 18][int(rng.integers(0, 5))])
    X = X.astype(dtype)
    # distinct points
    _, first = np.unique(X, axis=0, return_index=True)
    X = X[np.sort(first)]
    if len(X) < nmin:
        X = (np.arange(nmin * d).reshape(nmin, d) * 3).astype(dtype)
    X = np.ascontiguousarray(X)
    # memory layout: the kernels take strided input, the algorithms index
    # rows; neither may depend on contiguity
    lay = 'C'
    r = rng.random()
    if r < 0.15:
        X, lay = np.asfortranarray(X), 'F'
    elif r < 0.3:
        big = np.zeros((len(X) * 2, X.shape[1] * 2 + 1), dtype=X.dtype)
        big[1::2, ::2][:, :X.shape[1]] = X
        X, lay = big[1::2, ::2][:, :d], 'strided'
    return X, {'geom': geom, 'dtype': np.dtype(dtype).name, 'n': len(X),
               'd': X.shape[1], 'layout': lay}


def tol_for(X):
    return 2e-5 if X.dtype == np.float32 else 1e-9


def unit(X):
    """Magnitude of the data when it is far from 1 (the metrics are
    homogeneous, so tolerances are stated in this unit); 1.0 otherwise."""
    u = float(np.abs(np.asarray(X, dtype=np.float64)).max()) if np.size(X) \
        else 1.0
    return u if (u > 0 and (u < 1e-3 or u > 1e3)) else 1.0


def check_result(ctx, X, metric_name, res, prefix, expect_k=None,
                 centers_in_data=True):
    """C01 invariants on a ClusterResult-like (center_indices, distances,
    assignments, centers).  Returns True if all held."""
    ref = ref_metric(metric_name)
    tol = tol_for(X)
    ci = np.asarray(res.center_indices)
    dist = np.asarray(res.distances, dtype=float)
    lab = np.asarray(res.assignments)
    centers = res.centers
    ok = True

    def bad(key, msg):
        nonlocal ok
        ok = False
        ctx.violation('%s.%s' % (prefix, key), msg)

    K = len(centers)
    if len(ci) != K:
        bad('centers-vs-indices', 'len(centers)=%d but len(center_indices)=%d'
            % (K, len(ci)))
        return False
    if expect_k is not None and K != expect_k:
        bad('cluster-count', 'expected %d clusters, got %d' % (expect_k, K))
    if len(dist) != len(X) or len(lab) != len(X):
        bad('lengths', 'distances/assignments length mismatch')
        return False
    if ci.ndim != 1 or not np.issubdtype(ci.dtype, np.integer):
        bad('index-type', 'center indices are %r' % (ci,))
        return False
    if np.any(ci < 0) or np.any(ci >= len(X)):
        bad('index-range', 'center index outside the data: %s' % ci.tolist())
        return False
    for k in range(K):
        if centers_in_data and not np.array_equal(np.asarray(centers[k]),
                                                  X[ci[k]]):
            bad('center-is-not-its-frame',
                'center %d %s != X[%d] %s' % (k, np.asarray(centers[k]).tolist(),
                                              ci[k], X[ci[k]].tolist()))
    if np.any(lab < 0) or np.any(lab >= K):
        bad('label-range', 'labels outside [0,%d): %s' % (
            K, np.unique(lab).tolist()))
        return False
    D = np.stack([ref(X, np.asarray(c)) for c in centers], axis=1)   # n x K
    own = D[np.arange(len(X)), lab]
    u = unit(X)
    scale = u + np.abs(own)
    w = np.abs(own - dist) > tol * scale
    if np.any(w):
        i = int(np.where(w)[0][0])
        bad('distance-wrong', 'frame %d: reported distance %.12g but metric '
            'distance to its center %d is %.12g (%d frames)' % (
                i, dist[i], lab[i], own[i], int(w.sum())))
    closer = D.min(axis=1) < dist - tol * scale
    if np.any(closer):
        i = int(np.where(closer)[0][0])
        bad('not-nearest', 'frame %d assigned to center %d at %.12g but '
            'center %d is at %.12g (%d frames)' % (
                i, lab[i], dist[i], int(D[i].argmin()), D[i].min(),
                int(closer.sum())))
    for k in range(K):
        if lab[ci[k]] != k or abs(dist[ci[k]]) > tol * u:
            bad('center-own-label', 'center %d (frame %d) has label %d '
                'distance %.3g' % (k, ci[k], lab[ci[k]], dist[ci[k]]))
            break
    return ok


def msq(d):
    d = np.asarray(d, dtype=float)
    return float(np.mean(d * d))
