"""MANIFEST.setup_cmd: build everything the checks need from files on disk.
Checks re-create anything missing, so this only warms the caches."""
import concurrent.futures as cf
import json
import os
import sys
import time

from . import build


def main():
    t0 = time.time()
    with cf.ThreadPoolExecutor(3) as ex:
        futs = {v: ex.submit(build.ensure, v) for v in ('plain', 'asan', 'tsan')}
        for v, f in futs.items():
            print('build', v, f.result())
    print('native', build.native('gomp_hb'))
    print('native', build.native('poisonalloc'))
    m = json.load(open(os.path.join(build.VERIF, 'MANIFEST.json')))
    assert m['version'] == 1 and m['checks'], 'manifest malformed'
    for c in m['checks']:
        mod = os.path.join(build.VERIF, 'vf', 'props',
                           c['property_id'].lower() + '.py')
        assert os.path.exists(mod), mod
    print('setup ok in %.1fs' % (time.time() - t0))


if __name__ == '__main__':
    sys.exit(main())
