"""Regenerate MANIFEST.json from the table below: python -m vf.manifest_gen"""
import json
import os

VERIF = os.path.dirname(os.path.dirname(os.path.abspath(__file__)))

# id -> (engine, technique, level text, level note, design ref)
P = {
 'C01': ('pymon', 'runtime monitor on clustering entry points + independent NumPy metric oracle + PAM branch-occupancy line probe',
         'Every k-centers/k-medoids/k-hybrid entry point (function, estimator, cold, warm, init_centers, explicit proposals) is executed on thousands of seeded data sets and each returned result is re-derived with an independent float64 metric; inputs are fingerprinted before/after. Held on the executions observed.',
         'Reference metric in NumPy float64; tolerance 1e-9 relative; distinct points only.', '3/C01'),
 'C02': ('pymon', 'independent replay of the greedy rule over a recorded radius history + exhaustive optimal k-center radius for n<=13; constructed ulp-level data around the pruning bound, serial and one-rank MPI route',
         'The farthest-point rule, radius monotonicity, the two-sided stop rule, the 2-approximation (against exhaustive search) and the triangle-inequality shortcut equivalence are decided per execution from the per-iteration history recorded by a wrapper on the iteration function.',
         'Metrics with the triangle inequality only; near-ties within 1e-9 counted ambiguous.', '3/C02'),
 'C03': ('pymon', 'runtime monitor on assigns_to_counts with a pure-Python pair-counting oracle over ragged/padded/shuffled/split presentations',
         'Counts from the real code are compared cell by cell with an explicit (t, t+lag) pair counter on seeded trajectory sets, in three presentations, shuffled and split; cross-trajectory leakage is made visible by disjoint per-trajectory alphabets.',
         'Oracle is the definition in the property statement.', '3/C03'),
 'C04': ('pymon', 'runtime monitor on the three builders across 8 containers with algebraic oracles (stochastic, stationary, detailed balance, container faithfulness, input immutability)',
         'Each builder x container x prior x eq-probs configuration is executed on seeded count matrices and its outputs checked against the defining identities and against the dense result.',
         'SciPy sparse arrays (csr_array...) are outside the property container list: run for information only.', '3/C04'),
 'C05': ('pymon', 'list-of-rows reference model vs monitored RaggedArray.__getitem__ over a grammar of index expressions',
         'Tens of thousands of (array, index expression) reads per run, each compared with plain per-row numpy indexing, including out-of-row accesses that must raise. Held on what was observed.',
         'Container type of a result (scalar vs 1-element array, ndarray vs RaggedArray) is not compared, only values and row lengths.', '3/C05'),
 'C06': ('pymon', 'history checker: random operation histories (element/row/slice/mask writes, cross-dtype rows, row exchanges, appends, arithmetic) replayed on a list-of-rows model with observation of all views and internal slots',
         'Seeded histories of writes/appends/arithmetic are applied to the real object and to the model; after every operation all read paths and the three internal slots are compared (coherence at quiescent points).',
         'Single-threaded histories (the object has no internal synchronisation to test).', '3/C06'),
 'C07': ('pymon', 'runtime monitor on committors/mfpts with first-step-equation residual oracle (dense NumPy) over dense and sparse containers',
         'Every returned committor / MFPT vector is substituted back into its defining linear equations; all-pairs vs single-sink, lag scaling, dense==sparse and input immutability are checked per execution.',
         'Residual tolerance scaled by cond(I-Q).', '3/C07'),
 'C08': ('pymon', 'runtime monitor on reactive_fluxes/net_fluxes/reactive_populations with definition + Kirchhoff conservation oracle',
         'Flux matrices returned for seeded reversible chains are compared with the definition entry by entry and the conservation identities are evaluated on them.',
         'Committors taken from the C07-checked routine and re-verified by residual.', '3/C08'),
 'C09': ('pymon', 'sweep-history monitor: recording cost function + line probe at the accept test; oracle over the (old,new,decision) event sequence and an independent PAM reference step',
         'Every proposal of every sweep is observed (costs, decision, state before/after); monotonicity, wholesale discard on rejection, centers-in-data, reproducibility and hybrid<=kcenters are decided from the recorded history.',
         'Independent PAM reference applies to tie-free data with explicit proposals.', '3/C09'),
 'C10': ('pymon', 'brute-force distance-matrix oracle on assign_to_nearest_center/predict/find_cluster_centers and unique-id partition bookkeeping checks',
         'Assignments and distances are compared with a brute-force matrix; partition results are checked value by value using unique ids, with centers placed on trajectory boundaries.',
         'Estimators are also driven through histories (fit, predict, refit on other data, predict).', '3/C10'),
 'C11': ('pymon', 'independent SCC oracle (boolean transitive closure) vs monitored trim_disconnected / MSM.fit on planted component structures',
         'Kept set, trimmed matrix, mapping and container are compared with an independent computation for planted multi-component count matrices in 8 containers.',
         'Exact weight ties accept any maximiser.', '3/C11'),
 'C12': ('pymon+sanitize', 'runtime monitor on both MLE implementations: termination, likelihood dominance over reversible competitors, Prinz fixed-point residual, py==compiled; compiled kernel also under ASan/UBSan',
         'Both estimators run on seeded strongly connected matrices; any internal AssertionError/TypeError is a violation; optimality is tested against the transpose estimate and random reversible competitors on the same support.',
         'Competitor family is sampled, not exhaustive; tolerance 10x the convergence tolerance.', '3/C12'),
 'C13': ('sanitize', 'exact-value monitor + GCC ASan/UBSan build + TSan build with libgomp happens-before interposer, across dtypes/layouts/thread counts; floating-point-environment probe (FTZ/DAZ) around import and run',
         'The real kernels are run on seeded inputs in three builds; values are compared with exact references, out buffers are guard-banded, sanitizer report blocks are counted (zero required), OpenMP regions actually observed are counted.',
         'Static OpenMP schedule only; TSan sees the interleavings that occurred; red-zone tools miss intra-object overflow (guard bands and value checks cover the out buffer).', '3/C13'),
 'C14': ('mpisim', 'thread-per-rank stand-in MPI communicator as monitor (collective matching, arrival-order logging, injected delays) + serial-equivalence oracle',
         'enspara MPI code runs unmodified on worlds of 1..8(16) simulated ranks with randomised arrival orders; reassembled results are compared with the serial run; collective sequences are matched across ranks.',
         'Stand-in communicator follows mpi4py semantics for the calls used; no real MPI library exists in the sandbox.', '2, 3/C14'),
 'C15': ('pymon', 'round-trip monitor on ra.save/load and load_as_concatenated with completion-order perturbation in forked workers',
         'Generated arrays/trajectory files are stored and loaded under every stride/key/worker configuration; results compared bit for bit with direct slicing / per-file loads; distinct worker completion orders are recorded.',
         'Worker delays are injected through a parent-side wrapper of md.load inherited by fork.', '3/C15'),
 'C16': ('pymon', 'monitor on MSM.fit and on the functions it calls (arguments actually passed) vs explicit function pipeline; save/load round trip; spectral residual oracle',
         'For each configuration the estimator attributes are compared with the pipeline composed from the constructor arguments, and the arguments the estimator passed internally are inspected; eigenpairs are checked by residual.',
         'Float equality exact for round trip; residual tolerances 1e-8.', '3/C16'),
 'C17': ('pymon', 'monitor on paths()/top_path capturing the residual matrix of every iteration + exhaustive simple-path enumeration oracle (n<=9)',
         'Every returned path is validated against the residual matrix it was found in and against exhaustive enumeration of all simple source-sink paths.',
         'Exhaustive optimum only for n<=9.', '3/C17'),
 'C18': ('sanitize', 'np.add.at reference counts + conservation monitor, ASan/UBSan and TSan+interposer builds of libinfo, MI algebraic identity oracles',
         'Joint counts from the compiled kernel are compared cell by cell for all integer dtypes/layouts/thread counts, hostile ids must raise without corrupting earlier tables, and the MI identities are evaluated on the results.',
         'As C13 for the sanitizer part.', '3/C18'),
 'C19': ('poison', 'NEP-49 poisoning allocator differential (0x00/0xFF/0x7F/noise), call-history perturbation, thread-count and worker-process-count variation, same-argument-objects-refilled differential (functools caches cleared for the reference), masked-ufunc census, input fingerprints',
         'Each routine of the registry is called under four heap fill patterns, after random call prefixes and with different thread counts; results must be bit-identical and arguments unchanged.',
         'Allocator hook covers NumPy data buffers only (not SciPy/C mallocs).', '3/C19'),
 'C20': ('pymon', 'independent modular-interval hysteresis machine vs monitored rotamer assignment over seeded angle histories; set-based oracle for transitions()',
         'Angle histories approaching every gate and the 0/360 seam from both sides are run through the real state machine and an independent one; transition tables are compared with first differences per trajectory.',
         'Angles avoid exact gate values; buffer widths inside the non-degenerate range.', '3/C20'),
}

DONE = sorted(P)

PENDING_REASON = ('check under construction in this session (design in '
                  'DESIGN.md section 3); not claimed until it runs clean on '
                  'the unchanged tree')


def main():
    checks = []
    for pid in sorted(P):
        if pid not in DONE:
            continue
        eng, tech, text, note, ref = P[pid]
        checks.append({
            'property_id': pid,
            'quick_cmd': './check %s --tier quick' % pid,
            'thorough_cmd': './check %s --tier thorough' % pid,
            'evidence_file': 'evidence/%s.json' % pid,
            'replay_cmd_template': './check %s --replay {path}' % pid,
            'engine': eng,
            'level_claimed': {'category': 'exploration', 'text': text,
                              'design_ref': 'DESIGN.md section ' + ref},
            'level_note': note,
            'technique': tech,
        })
    m = {
        'version': 1,
        'setup_cmd': '/venv/bin/python -m vf.setup',
        'hooks': {
            'guard': 'ENSPARA_VERIF',
            'enable': 'set by ./check in its worker processes only; selects '
                      'the stand-in mpi4py and turns the monitors on. /repo '
                      'contains no guarded code: all monitors attach from '
                      'outside (wrappers, sys.monitoring line probes, '
                      'sanitizer builds made out-of-tree from the working '
                      'tree). /repo commit 81e13fd ("uncommitted hook '
                      'changes") is not a hook: it is a seeded test change '
                      'left applied by an earlier version of '
                      'tools/seed_check.sh, and is undone by fix: 8916c08 '
                      '(DESIGN.md section 10).',
            'baseline_off_cmd': 'cd /repo && /venv/bin/python -m pytest -ra -q '
                                '-p no:cacheprovider --timeout=900 '
                                '--continue-on-collection-errors',
            'source_commits': [],
            'add_only': True,
        },
        'engines': [
            {'name': 'pymon', 'path': 'vf/monitor.py',
             'serves_properties': [p for p in sorted(P) if 'pymon' in P[p][0]],
             'kind_free_text': 'function wrappers re-bound in every namespace, '
             'sys.monitoring line probes, argument fingerprints, reference-model oracles'},
            {'name': 'sanitize', 'path': 'vf/build.py',
             'serves_properties': [p for p in sorted(P) if 'sanitize' in P[p][0]],
             'kind_free_text': 'GCC ASan+UBSan and TSan builds of the Cython '
             'kernels; libgomp happens-before interposer vf/native/gomp_hb.c'},
            {'name': 'mpisim', 'path': 'vf/mpisim/mpi4py/MPI.py',
             'serves_properties': ['C14'],
             'kind_free_text': 'thread-per-rank stand-in communicator that logs and matches collectives'},
            {'name': 'poison', 'path': 'vf/native/poisonalloc.c',
             'serves_properties': ['C19'],
             'kind_free_text': 'NEP-49 NumPy data allocator that poisons fresh and freed buffers'},
        ],
        'checks': checks,
        'notes': 'All checks: ./check <ID> [--tier quick|thorough] [--replay f]; '
                 'exit 0 held on what was observed, 1 VIOLATION, 2 INCONCLUSIVE. '
                 'known_findings.json lists recorded and fixed defects.',
        'not_applicable': [
            {'property_id': p, 'reason': PENDING_REASON}
            for p in sorted(P) if p not in DONE],
    }
    with open(os.path.join(VERIF, 'MANIFEST.json'), 'w') as f:
        json.dump(m, f, indent=1)
    print('MANIFEST.json: %d checks, %d not claimed' % (
        len(checks), len(m['not_applicable'])))


if __name__ == '__main__':
    main()
