/* NEP-49 NumPy data allocator that poisons memory NumPy did not initialise.
 *
 * Every malloc'ed buffer (np.empty, ufunc outputs without out=), every grown
 * realloc tail and every freed block is filled with a chosen pattern:
 *   mode 0: 0x00   mode 1: 0xFF (NaN for floats, -1 for ints)
 *   mode 2: 0x7F   mode 3: xorshift noise
 * calloc is left alone (np.zeros must stay zero).  A routine whose result
 * differs between fill modes has read memory it did not initialise.
 */
#define PY_SSIZE_T_CLEAN
#include <Python.h>
#define NPY_NO_DEPRECATED_API NPY_1_7_API_VERSION
#include <numpy/arrayobject.h>
#include <stdlib.h>
#include <string.h>
#include <stdint.h>

static int g_mode = 0;
static uint64_t g_state = 0x9E3779B97F4A7C15ull;
static unsigned long long g_bytes = 0, g_allocs = 0;

static void fill(void *p, size_t n) {
    if (!p || !n) return;
    g_bytes += n;
    switch (g_mode) {
    case 0: memset(p, 0x00, n); break;
    case 1: memset(p, 0xFF, n); break;
    case 2: memset(p, 0x7F, n); break;
    default: {
        unsigned char *c = p;
        for (size_t i = 0; i < n; i++) {
            g_state ^= g_state << 13; g_state ^= g_state >> 7;
            g_state ^= g_state << 17;
            c[i] = (unsigned char)(g_state >> 24);
        }
    }}
}

/* header stores the size so free/realloc can poison */
#define HDR 64
static void *p_malloc(void *ctx, size_t size) {
    unsigned char *b = malloc(size + HDR);
    if (!b) return NULL;
    *(size_t *)b = size;
    g_allocs++;
    fill(b + HDR, size);
    return b + HDR;
}
static void *p_calloc(void *ctx, size_t nelem, size_t elsize) {
    size_t size = nelem * elsize;
    unsigned char *b = calloc(1, size + HDR);
    if (!b) return NULL;
    *(size_t *)b = size;
    return b + HDR;
}
static void p_free(void *ctx, void *ptr, size_t size) {
    if (!ptr) return;
    unsigned char *b = (unsigned char *)ptr - HDR;
    fill(ptr, *(size_t *)b);
    free(b);
}
static void *p_realloc(void *ctx, void *ptr, size_t new_size) {
    if (!ptr) return p_malloc(ctx, new_size);
    unsigned char *b = (unsigned char *)ptr - HDR;
    size_t old = *(size_t *)b;
    /* always move, so stale pointers into the old block see poison */
    unsigned char *nb = malloc(new_size + HDR);
    if (!nb) return NULL;
    *(size_t *)nb = new_size;
    memcpy(nb + HDR, ptr, old < new_size ? old : new_size);
    if (new_size > old) fill(nb + HDR + old, new_size - old);
    fill(ptr, old);
    free(b);
    return nb + HDR;
}

static PyDataMem_Handler handler = {
    "vf_poison", 1, { NULL, p_malloc, p_calloc, p_realloc, p_free }
};

static PyObject *install(PyObject *self, PyObject *args) {
    PyObject *cap = PyCapsule_New(&handler, "mem_handler", NULL);
    if (!cap) return NULL;
    PyObject *old = PyDataMem_SetHandler(cap);
    Py_DECREF(cap);
    if (!old) return NULL;
    return old;
}
static PyObject *restore(PyObject *self, PyObject *old) {
    PyObject *r = PyDataMem_SetHandler(old == Py_None ? NULL : old);
    if (!r) return NULL;
    Py_DECREF(r);
    Py_RETURN_NONE;
}
static PyObject *set_mode(PyObject *self, PyObject *args) {
    int m; unsigned long long seed = 1;
    if (!PyArg_ParseTuple(args, "i|K", &m, &seed)) return NULL;
    g_mode = m; g_state = seed ? seed * 0x9E3779B97F4A7C15ull : 1;
    Py_RETURN_NONE;
}
static PyObject *stats(PyObject *self, PyObject *args) {
    return Py_BuildValue("KK", g_allocs, g_bytes);
}
static PyMethodDef methods[] = {
    {"install", install, METH_NOARGS, "install the poisoning allocator; returns previous handler"},
    {"restore", restore, METH_O, "restore a previous handler"},
    {"set_mode", set_mode, METH_VARARGS, "set fill mode (0,1,2,3[,seed])"},
    {"stats", stats, METH_NOARGS, "(allocations, bytes poisoned)"},
    {NULL, NULL, 0, NULL}
};
static struct PyModuleDef mod = { PyModuleDef_HEAD_INIT, "poisonalloc", NULL, -1, methods };
PyMODINIT_FUNC PyInit_poisonalloc(void) {
    import_array();
    return PyModule_Create(&mod);
}
