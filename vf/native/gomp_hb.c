/* libgomp happens-before interposer for ThreadSanitizer.
 *
 * libgomp synchronises its thread team with raw futexes that TSan cannot
 * see, so every OpenMP fork/join/barrier looks like a data race.  This shim
 * is LD_PRELOADed after libtsan and wraps the libgomp entry points the
 * enspara kernels use; it adds release/acquire edges for fork, join and
 * barriers and counts parallel regions (printed at exit to VF_GOMP_HB_LOG).
 * It must NOT be built with -fsanitize=thread.
 */
#define _GNU_SOURCE
#include <dlfcn.h>
#include <stdio.h>
#include <stdlib.h>
#include <unistd.h>

extern void __tsan_acquire(void *addr);
extern void __tsan_release(void *addr);

static void (*real_parallel)(void (*)(void *), void *, unsigned, unsigned);
static void (*real_barrier)(void);
static int (*real_get_num_threads)(void);
static char fork_tok, join_tok, bar_tok;
static volatile long n_regions, n_barriers, max_threads;

struct wrap { void (*fn)(void *); void *data; };

__attribute__((constructor)) static void init(void) {
    void *h = dlopen("libgomp.so.1", RTLD_NOW | RTLD_GLOBAL);
    if (!h) { fprintf(stderr, "gomp_hb: cannot open libgomp\n"); abort(); }
    real_parallel = dlsym(h, "GOMP_parallel");
    real_barrier = dlsym(h, "GOMP_barrier");
    real_get_num_threads = dlsym(h, "omp_get_num_threads");
}

static void tramp(void *p) {
    struct wrap *w = p;
    __tsan_acquire(&fork_tok);
    if (real_get_num_threads) {
        long n = real_get_num_threads();
        if (n > max_threads) max_threads = n;
    }
    w->fn(w->data);
    __tsan_release(&join_tok);
}

void GOMP_parallel(void (*fn)(void *), void *data, unsigned nthreads,
                   unsigned flags) {
    struct wrap w = { fn, data };
    __sync_fetch_and_add(&n_regions, 1);
    __tsan_release(&fork_tok);
    real_parallel(tramp, &w, nthreads, flags);
    __tsan_acquire(&join_tok);
}

void GOMP_barrier(void) {
    __sync_fetch_and_add(&n_barriers, 1);
    __tsan_release(&bar_tok);
    real_barrier();
    __tsan_acquire(&bar_tok);
}

long vf_gomp_regions(void) { return n_regions; }
long vf_gomp_max_threads(void) { return max_threads; }

__attribute__((destructor)) static void fini(void) {
    const char *p = getenv("VF_GOMP_HB_LOG");
    if (p) {
        char buf[4096];
        snprintf(buf, sizeof buf, "%s.%d", p, (int)getpid());
        FILE *f = fopen(buf, "w");
        if (f) {
            fprintf(f, "regions=%ld barriers=%ld max_threads=%ld\n",
                    n_regions, n_barriers, max_threads);
            fclose(f);
        }
    }
}
