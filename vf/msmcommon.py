"""Shared generators for the MSM / TPT properties."""
import numpy as np
import scipy.sparse as sp

SPARSE_MATRIX = {
    'csr': sp.csr_matrix, 'csc': sp.csc_matrix, 'coo': sp.coo_matrix,
    'lil': sp.lil_matrix, 'dok': sp.dok_matrix, 'dia': sp.dia_matrix,
    'bsr': sp.bsr_matrix,
}
SPARSE_ARRAY = {
    'csr_array': sp.csr_array, 'coo_array': sp.coo_array,
}
CONTAINERS = ['ndarray'] + list(SPARSE_MATRIX)


def relayout(rng, A):
    """Same values, different memory layout: C order, Fortran order, or a
    non-contiguous view into a larger buffer."""
    A = np.asarray(A)
    k = int(rng.integers(0, 4))
    if k <= 1 or A.ndim != 2:
        return np.array(A, order='C')
    if k == 2:
        return np.asfortranarray(A)
    n, m = A.shape
    big = np.zeros((2 * n, 2 * m + 1), dtype=A.dtype)
    big[::2, 1::2] = A
    return big[::2, 1::2]


def to_container(C, name, rng=None):
    if name == 'ndarray':
        if rng is not None:
            return relayout(rng, C)
        return np.array(C)
    if name in SPARSE_MATRIX:
        M = SPARSE_MATRIX[name](np.array(C))
        if rng is not None and name in ('csr', 'csc', 'coo') and \
                rng.random() < 0.4:
            # explicitly stored zeros (as left behind by masking .data or by
            # m[i, j] = 0): same matrix, different sparsity structure
            A = np.array(C)
            zi, zj = np.where(A == 0)
            if len(zi):
                pick = rng.choice(len(zi), size=min(len(zi), max(
                    1, len(zi) // 3)), replace=False)
                co = M.tocoo()
                co = sp.coo_matrix(
                    (np.concatenate([co.data, np.zeros(len(pick),
                                                       dtype=co.data.dtype)]),
                     (np.concatenate([co.row, zi[pick]]),
                      np.concatenate([co.col, zj[pick]]))), shape=A.shape)
                M = co if name == 'coo' else SPARSE_MATRIX[name](co)
        return M
    return SPARSE_ARRAY[name](np.array(C))


def dense(M):
    if sp.issparse(M):
        return np.asarray(M.toarray())
    return np.asarray(M)


def strongly_connected_counts(rng, n=None, nmin=2, nmax=14, real=None,
                              density=None, maxc=30, asym=1.0,
                              allow_periodic=True):
    """Non-negative count matrix with a strongly connected transition graph:
    a random Hamiltonian cycle plus random extra entries, zeros and
    self-counts."""
    if n is None:
        n = int(rng.integers(nmin, nmax + 1))
    if density is None:
        density = rng.uniform(0.1, 0.9)
    if real is None:
        real = rng.random() < 0.4
    C = np.zeros((n, n))
    perm = rng.permutation(n)
    for a, b in zip(perm, np.roll(perm, -1)):
        C[a, b] = rng.integers(1, maxc + 1)
    extra = rng.random((n, n)) < density
    periodic = allow_periodic and n >= 2 and rng.random() < 0.12
    if periodic:
        # periodic chains (several eigenvalues of modulus one): a bare
        # directed ring, or extra edges only between consecutive classes
        d = int(rng.integers(2, min(n, 4) + 1))
        cls = np.empty(n, dtype=int)
        cls[perm] = np.arange(n) % d
        if n % d:
            extra[:] = False          # ring of length n: period n
        else:
            extra &= (cls[None, :] == (cls[:, None] + 1) % d)
    vals = rng.integers(1, maxc + 1, size=(n, n)).astype(float)
    if asym != 1.0:
        vals = vals * np.where(rng.random((n, n)) < 0.5, asym, 1.0)
    C = np.where(extra & (C == 0), vals, C)
    if rng.random() < 0.5 or periodic:
        C[np.diag_indices(n)] = 0
    if real:
        C = C * rng.uniform(0.2, 1.5, size=(n, n))
    else:
        C = np.round(C)
    # make sure the cycle survived rounding
    for a, b in zip(perm, np.roll(perm, -1)):
        if C[a, b] <= 0:
            C[a, b] = 1
    return C if real else C.astype(np.int64)


def is_strongly_connected(A):
    n = len(A)
    R = (np.asarray(A) > 0) | np.eye(n, dtype=bool)
    for _ in range(int(np.ceil(np.log2(max(n, 2)))) + 1):
        R = R | ((R.astype(np.int32) @ R.astype(np.int32)) > 0)
    return bool(R.all())


def reversible_chain(rng, n=None, nmin=3, nmax=30, density=None):
    """Ergodic reversible transition matrix (from symmetric counts) and its
    stationary distribution."""
    if n is None:
        n = int(rng.integers(nmin, nmax + 1))
    if density is None:
        density = rng.uniform(0.15, 0.9)
    S = np.zeros((n, n))
    perm = rng.permutation(n)
    for a, b in zip(perm[:-1], perm[1:]):
        S[a, b] = S[b, a] = rng.uniform(0.5, 5)
    ex = np.triu(rng.random((n, n)) < density, 1)
    S = S + np.where(ex, rng.uniform(0.1, 5, size=(n, n)), 0)
    S = np.triu(S, 1)
    S = S + S.T
    S[np.diag_indices(n)] = rng.uniform(0, 5, size=n) * (rng.random(n) < 0.7)
    rs = S.sum(axis=1)
    T = S / rs[:, None]
    pi = rs / rs.sum()
    return T, pi


def periodic_chain(rng, n):
    """Irreducible *periodic* row-stochastic matrix (several eigenvalues of
    modulus one): bare directed ring, Ehrenfest urn, random bipartite."""
    sub = ['ring', 'ehrenfest', 'bipartite'][int(rng.integers(0, 3))]
    A = np.zeros((n, n))
    if sub == 'ring':
        perm = rng.permutation(n)
        A[perm, np.roll(perm, -1)] = 1.0
    elif sub == 'ehrenfest':
        N = n - 1
        for i in range(n):
            if i > 0:
                A[i, i - 1] = i / N
            if i < N:
                A[i, i + 1] = (N - i) / N
    else:
        perm = rng.permutation(n)
        h = max(1, n // 2)
        a, b = perm[:h], perm[h:]
        A[np.ix_(a, b)] = rng.random((len(a), len(b))) + 0.05
        A[np.ix_(b, a)] = rng.random((len(b), len(a))) + 0.05
    return A / A.sum(axis=1, keepdims=True), 'periodic-' + sub


def irreducible_chain(rng, n=None, nmin=3, nmax=40, kind=None,
                      periodic=0.0):
    """Irreducible row-stochastic matrix, not necessarily reversible."""
    if n is None:
        n = int(rng.integers(nmin, nmax + 1))
    if kind is None and periodic and rng.random() < periodic:
        return periodic_chain(rng, n)
    if kind is None:
        kind = ['dense', 'ring', 'reversible', 'nearly-reducible'][
            int(rng.integers(0, 4))]
    if kind == 'reversible':
        T, _ = reversible_chain(rng, n=n)
        return T, kind
    if kind == 'dense':
        A = rng.random((n, n)) + 0.01
    elif kind == 'ring':
        A = np.zeros((n, n))
        for i in range(n):
            A[i, (i + 1) % n] = rng.uniform(0.2, 1)
        A += (rng.random((n, n)) < 0.15) * rng.random((n, n))
        A[np.diag_indices(n)] += rng.random(n) * (rng.random(n) < 0.5)
    else:
        h = max(1, n // 2)
        A = np.zeros((n, n))
        A[:h, :h] = rng.random((h, h)) + 0.05
        A[h:, h:] = rng.random((n - h, n - h)) + 0.05
        eps = 10.0 ** -rng.uniform(2, 5)
        A[h - 1, h] = eps
        A[n - 1, 0] = eps
    T = A / A.sum(axis=1, keepdims=True)
    return T, kind


def stationary(T):
    """Stationary distribution by solving (T^T - I) pi = 0, sum pi = 1."""
    n = len(T)
    A = np.vstack([T.T - np.eye(n), np.ones((1, n))])
    b = np.zeros(n + 1)
    b[-1] = 1
    pi, *_ = np.linalg.lstsq(A, b, rcond=None)
    return pi


def large_metastable_counts(rng, symmetric=False, n_min=1000):
    """Sparse count matrix with >= 1000 states (the size at which enspara
    switches from the dense LAPACK eigen-solver to sparse ARPACK) made of a
    few densely connected clusters joined by a handful of rare transitions,
    i.e. a slowly mixing chain.  Returns a scipy csr matrix of integer
    counts with a strongly connected transition graph."""
    import scipy.sparse as sp
    k = int(rng.integers(3, 7))
    sizes = [int(rng.integers(n_min // k + 1, n_min // k + 80))
             for _ in range(k)]
    n = sum(sizes)
    rows, cols, vals = [], [], []
    pos = 0
    offs = []
    for s in sizes:
        ids = np.arange(pos, pos + s)
        offs.append(ids)
        # ring (strong connectivity) + ~6 random partners per state
        rows += list(ids) + list(ids)
        cols += list(np.roll(ids, -1)) + list(np.roll(ids, 1))
        vals += list(rng.integers(20, 200, size=2 * s))
        part = rng.integers(0, s, size=(s, 6)) + pos
        rows += list(np.repeat(ids, 6))
        cols += list(part.ravel())
        vals += list(rng.integers(5, 200, size=6 * s))
        # self counts
        rows += list(ids)
        cols += list(ids)
        vals += list(rng.integers(0, 500, size=s))
        pos += s
    # rare transitions between consecutive clusters, both directions
    for a in range(k):
        b = (a + 1) % k
        for _ in range(int(rng.integers(1, 4))):
            i = int(rng.choice(offs[a]))
            j = int(rng.choice(offs[b]))
            rows += [i, j]
            cols += [j, i]
            vals += [int(rng.integers(1, 4)), int(rng.integers(1, 4))]
    C = sp.coo_matrix((np.array(vals, dtype=np.int64),
                       (np.array(rows), np.array(cols))), shape=(n, n)).tocsr()
    C.sum_duplicates()
    if symmetric:
        C = (C + C.T).tocsr()
    return C
