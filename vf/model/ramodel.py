"""List-of-rows reference model for RaggedArray (C05, C06).

The model is a plain Python list of per-row numpy arrays; every operation is
evaluated with ordinary list / numpy indexing on the rows.
"""
import numbers

import numpy as np


class ModelIndexError(IndexError):
    pass


def make_rows(rng, nrows=None, maxlen=6, equal=None, elem_shape=(), dtype=None,
              minlen=1):
    """Rows with unique-id values: row*1000 + col*10 + component."""
    if nrows is None:
        nrows = int(rng.integers(1, 8))
    if equal is None:
        equal = rng.random() < 0.3
    if equal:
        L = int(rng.integers(minlen, maxlen + 1))
        lens = [L] * nrows
    else:
        lens = [int(x) for x in rng.integers(minlen, maxlen + 1, size=nrows)]
    if dtype is None:
        dtype = [np.int64, np.float64, np.int32, np.float32][
            int(rng.integers(0, 4))]
    rows = []
    ncomp = int(np.prod(elem_shape)) if elem_shape else 1
    for r, L in enumerate(lens):
        base = (r * 1000 + np.arange(L) * 10)
        if elem_shape:
            v = base[:, None] + np.arange(ncomp)[None, :]
            v = v.reshape((L,) + tuple(elem_shape))
        else:
            v = base
        rows.append(v.astype(dtype))
    return rows


def _norm_row(i, n):
    if not isinstance(i, numbers.Integral):
        raise TypeError(i)
    if i < -n or i >= n:
        raise ModelIndexError('row %d out of range for %d rows' % (i, n))
    return int(i) % n


def _rows_of(first, n):
    if isinstance(first, slice):
        return list(range(*first.indices(n)))
    return [_norm_row(int(i), n) for i in first]


def _elem(row, j):
    L = len(row)
    if j < -L or j >= L:
        raise ModelIndexError('col %d out of range for row of length %d'
                              % (j, L))
    return row[j]


def model_get(rows, idx):
    """Return (shape_kind, value).

    kinds: 'row' (one array), 'rows' (list of arrays), 'flat' (list of
    elements), 'elem' (one element)."""
    n = len(rows)
    if isinstance(idx, numbers.Integral):
        return 'row', rows[_norm_row(idx, n)]
    if isinstance(idx, slice):
        return 'rows', [rows[i] for i in range(*idx.indices(n))]
    if isinstance(idx, (list, np.ndarray)) and not isinstance(idx, tuple):
        return 'rows', [rows[_norm_row(int(i), n)] for i in idx]
    if isinstance(idx, tuple):
        f, s = idx
        if isinstance(f, numbers.Integral):
            r = rows[_norm_row(f, n)]
            if isinstance(s, numbers.Integral):
                return 'elem', _elem(r, s)
            if isinstance(s, slice):
                return 'row', r[s]
            raise TypeError('unsupported')
        rs = _rows_of(f, n)
        if isinstance(s, numbers.Integral):
            if isinstance(f, np.ndarray):
                # numpy-style: index array with a scalar column -> flat values
                return 'flat', [_elem(rows[r], s) for r in rs]
            return 'rows', [np.asarray(_elem(rows[r], s))[None] for r in rs]
        if isinstance(s, slice):
            return 'rows', [rows[r][s] for r in rs]
        # s is a list
        if isinstance(f, slice):
            out = []
            for r in rs:
                out.append(np.array([_elem(rows[r], int(c)) for c in s]))
            return 'rows', out
        if len(f) != len(s):
            raise TypeError('paired index length mismatch')
        return 'flat', [_elem(rows[r], int(c)) for r, c in zip(rs, s)]
    raise TypeError('unsupported index %r' % (idx,))


def model_mask_get(rows, maskrows):
    out = []
    for r, m in zip(rows, maskrows):
        out.extend(list(r[np.asarray(m, dtype=bool)]))
    return out


def flat_values(kind, val):
    if kind == 'elem':
        return np.asarray(val).reshape(-1)
    if kind == 'row':
        return np.asarray(val).reshape(-1)
    if kind in ('rows', 'flat'):
        if len(val) == 0:
            return np.zeros(0)
        return np.concatenate([np.asarray(v, dtype=float).reshape(-1)
                               for v in val])
    raise ValueError(kind)


def real_flat(res):
    """Flatten whatever the real code returned to a 1-D float array, plus
    row lengths if it has row structure."""
    if type(res).__name__ == 'RaggedArray':
        lens = [len(res[i]) for i in range(len(res))]
        if len(res) == 0:
            return np.zeros(0), lens
        vals = np.concatenate([np.asarray(_de_obj(res[i]), dtype=float
                                          ).reshape(-1)
                               for i in range(len(res))]) if lens else \
            np.zeros(0)
        return vals, lens
    arr = _de_obj(res)
    return np.asarray(arr, dtype=float).reshape(-1), None


def _de_obj(a):
    a = np.asarray(a)
    if a.dtype == object:
        if a.size == 0:
            return np.zeros(0)
        return np.array([np.asarray(x, dtype=float) for x in a.ravel()]
                        ).reshape(-1)
    return a
