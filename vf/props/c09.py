"""C09 - k-medoids refinement never worsens the cost, keeps centers in the data."""
import hashlib
import json
import os
import subprocess
import sys

import numpy as np

from vf import clustercommon as cc

RULE = ('cases = seeded data sets x metric x k x 1-8 sweeps x (cold / warm / '
        'explicit proposals / hybrid) x (int seed / RandomState / None); the '
        'sweep history of every run is recorded: per proposal (cid, proposal, '
        'old cost, new cost, decision) plus state before/after every sweep; '
        'non-trivial = history with >=1 accepted and >=1 rejected proposal; '
        'distinct by (data hash, metric, k, sweeps, start form, seed)')
REQUIRED = ['pam_update_calls', 'proposal_events', 'accept_probe_hits',
            'sweeps_checked']
ASSUMPTIONS = ['cost = mean squared distance recomputed with the float64 '
               'reference metric; cost comparisons tolerate 1e-9 relative',
               'independent PAM reference step only on tie-free float data '
               'with explicit proposals']


STATE = {}


def shards(tier):
    if tier == 'quick':
        return [dict(kind='sweeps', n=1600, parts=15, timeout=900),
                dict(kind='fresh', n=6, parts=1, timeout=900)]
    return [dict(kind='sweeps', n=40000, parts=15, timeout=3400),
            dict(kind='fresh', n=120, parts=1, timeout=3400)]


def setup(ctx):
    global kcenters, kmedoids, hybrid, util
    from enspara.cluster import kcenters as _kc, kmedoids as _km, \
        hybrid as _hy, util as _u
    from vf import monitor
    kcenters, kmedoids, hybrid, util = _kc, _km, _hy, _u
    ctx.sweeps = []          # one record per _kmedoids_pam_update call
    ctx.cur = None
    real_cost = kmedoids._msq

    def rec_cost(x):
        v = real_cost(x)
        ctx.cur['costs'].append(float(v))
        return v

    orig = kmedoids._kmedoids_pam_update

    def wrapped(X, metric, medoid_inds, assignments, distances,
                proposals=None, cost=None, random_state=None):
        if len(medoid_inds) and isinstance(medoid_inds[0], tuple):
            # (rank, index) form of the MPI mode: recorded at result level
            # only (run_mpi_form)
            ctx.cur = None
            ctx.h_calls += 1
            kw = {} if cost is None else {'cost': cost}
            return orig(X, metric, medoid_inds, assignments, distances,
                        proposals=proposals, random_state=random_state, **kw)
        sw = {'in_inds': [int(i) for i in medoid_inds],
              'in_assig': np.array(assignments, copy=True),
              'in_dist': np.array(distances, copy=True),
              'costs': [], 'probe': [], 'proposals': proposals}
        ctx.cur = sw
        out = orig(X, metric, medoid_inds, assignments, distances,
                   proposals=proposals, cost=rec_cost,
                   random_state=random_state)
        inds, dist, assig, coords = out
        sw['out_inds'] = [int(i) for i in inds]
        sw['out_assig'] = np.array(assig, copy=True)
        sw['out_dist'] = np.array(dist, copy=True)
        sw['out_coords'] = [np.array(c, copy=True) for c in coords]
        ctx.sweeps.append(sw)
        ctx.h_calls += 1
        return out
    wrapped.__vf_orig__ = orig
    kmedoids._kmedoids_pam_update = wrapped
    ctx.h_calls = 0

    def probe(loc):
        if ctx.cur is None:
            return
        ctx.cur['probe'].append({
            'cid': int(loc['cid']),
            'proposal': int(loc['proposed_center_ind']),
            'members': np.array(loc['state_inds'], copy=True),
            'old': float(loc['old_cost']), 'new': float(loc['new_cost'])})
    ctx.probe = monitor.LineProbe(orig, 'if new_cost < old_cost:', probe)
    ctx.info['accept_probe_attached'] = ctx.probe.attached


def teardown(ctx):
    ctx.count('pam_update_calls', ctx.h_calls)
    ctx.count('accept_probe_hits', ctx.probe.hits)
    ctx.count('accept_probe_errors', ctx.probe.errors)


def check_sweeps(ctx, X, mname, sweeps, K, explicit):
    """Oracle over the recorded sweep history.  Returns (n_acc, n_rej)."""
    ref = cc.ref_metric(mname)
    tol = cc.tol_for(X)
    U = cc.unit(X) ** 2          # costs are squared distances
    acc = rej = 0
    for si, sw in enumerate(sweeps):
        ctx.count('sweeps_checked')
        costs = sw['costs']
        if len(costs) != 2 * K or len(sw['probe']) != K:
            ctx.violation('pam.history-shape',
                          'sweep %d: %d cost evaluations / %d accept tests for '
                          'K=%d' % (si, len(costs), len(sw['probe']), K))
            return acc, rej
        inds = list(sw['in_inds'])
        prev_old = prev_new = None
        prev_acc = None
        for j in range(K):
            old, new = costs[2 * j], costs[2 * j + 1]
            ev = sw['probe'][j]
            ctx.count('proposal_events')
            if ev['old'] != old or ev['new'] != new or ev['cid'] != j:
                ctx.violation('pam.monitor-disagree',
                              'cost recorder and line probe disagree at '
                              'sweep %d proposal %d' % (si, j))
                return acc, rej
            accepted = new < old
            # wholesale discard / commit of the candidate state
            if prev_old is not None:
                expect = prev_new if prev_acc else prev_old
                if old != expect:
                    ctx.violation(
                        'pam.candidate-leak',
                        'sweep %d proposal %d: cost before the proposal is '
                        '%.17g but the previous proposal was %s and left '
                        '%.17g' % (si, j, old,
                                   'accepted' if prev_acc else 'rejected',
                                   expect))
                    return acc, rej
            if not explicit and ev['proposal'] not in ev['members']:
                ctx.violation('pam.proposal-outside-cluster',
                              'sweep %d: proposal %d for cluster %d is not one '
                              'of its members' % (si, ev['proposal'], j))
            if accepted:
                inds[j] = ev['proposal']
                acc += 1
            else:
                rej += 1
            prev_old, prev_new, prev_acc = old, new, accepted
        if inds != sw['out_inds']:
            ctx.violation('pam.decision-not-applied',
                          'sweep %d: center indices %s but accepted/rejected '
                          'history implies %s' % (si, sw['out_inds'], inds))
            return acc, rej
        if len(sw['out_inds']) != K:
            ctx.violation('pam.cluster-count-changed', 'K %d -> %d' % (
                K, len(sw['out_inds'])))
        # independently recomputed cost: out <= in
        def true_cost(ci):
            Dm = np.stack([ref(X, X[i]) for i in ci], axis=1)
            return cc.msq(Dm.min(axis=1))
        cin, cout = true_cost(sw['in_inds']), true_cost(sw['out_inds'])
        if cout > cin + tol * (U + cin):
            ctx.violation('pam.cost-increased',
                          'sweep %d: mean squared distance %.12g -> %.12g' % (
                              si, cin, cout))
        rep = cc.msq(sw['out_dist'])
        if abs(rep - cout) > 10 * tol * (U + cout):
            ctx.violation('pam.reported-cost-wrong',
                          'sweep %d: cost of reported distances %.12g, true '
                          'cost of reported centers %.12g' % (si, rep, cout))
        for k_, c in enumerate(sw['out_coords']):
            if not np.array_equal(c, X[sw['out_inds'][k_]]):
                ctx.violation('pam.center-not-in-data',
                              'sweep %d center %d is not X[%d]' % (
                                  si, k_, sw['out_inds'][k_]))
                break
        # chaining: next sweep starts from this sweep's output
        if si + 1 < len(sweeps):
            nx = sweeps[si + 1]
            if nx['in_inds'] != sw['out_inds'] or not np.array_equal(
                    nx['in_dist'], sw['out_dist']) or not np.array_equal(
                    nx['in_assig'], sw['out_assig']):
                ctx.violation('pam.sweep-chain-broken',
                              'sweep %d does not start from sweep %d output'
                              % (si + 1, si))
    return acc, rej


def ref_pam(X, mname, inds, proposals, n_iters):
    """Independent reference PAM with explicit proposals (tie-free data)."""
    ref = cc.ref_metric(mname)
    inds = list(inds)
    ambiguous = False

    def cost(ci):
        Dm = np.stack([ref(X, X[i]) for i in ci], axis=1)
        return cc.msq(Dm.min(axis=1))
    for _ in range(n_iters):
        for cid in range(len(inds)):
            cand = list(inds)
            cand[cid] = proposals[cid]
            old, new = cost(inds), cost(cand)
            if new != old and abs(new - old) <= 1e-9 * (1 + old):
                ambiguous = True
            if new < old:
                inds = cand
    return inds, ambiguous


def result_digest(res):
    h = hashlib.sha1()
    h.update(np.asarray(res.center_indices, dtype=np.int64).tobytes())
    h.update(np.asarray(res.assignments, dtype=np.int64).tobytes())
    h.update(np.asarray(res.distances, dtype=np.float64).tobytes())
    return h.hexdigest()


def make_case(rng):
    form = ['cold', 'warm', 'props', 'props', 'hybrid', 'hybrid', 'KM_est',
            'HY_est', 'warm_state', 'mpi1'][int(rng.integers(0, 10))]
    if form == 'props' and rng.random() < 0.7:
        # tie-free data for the independent reference PAM
        X, info = cc.gen_data(rng, nmax=40, nmin=3, dtype=np.float64,
                              geom=['uniform', 'clustered'][
                                  int(rng.integers(0, 2))])
    else:
        X, info = cc.gen_data(rng, nmax=60, nmin=3)
    n = len(X)
    mname = ['euclidean', 'manhattan', 'chebyshev'][int(rng.integers(0, 3))]
    k = int(rng.integers(1, min(n, 9) + 1))
    iters = int(rng.integers(1, 9))
    seed = int(rng.integers(0, 2 ** 31))
    inds = [int(i) for i in rng.choice(n, size=k, replace=False)]
    props = [int(i) for i in rng.integers(0, n, size=k)]
    return X, info, mname, k, iters, form, seed, inds, props


def execute(X, mname, k, iters, form, seed, inds, props, rs=None):
    m = cc.metric_arg(mname, np.random.default_rng(seed))
    rs = seed if rs is None else rs
    if form == 'cold':
        return kmedoids.kmedoids(X, m, n_clusters=k, n_iters=iters,
                                 random_state=rs)
    if form == 'warm':
        return kmedoids.kmedoids(X, m, cluster_center_inds=list(inds),
                                 n_iters=iters, random_state=rs)
    if form == 'props':
        return kmedoids.kmedoids(X, m, cluster_center_inds=list(inds),
                                 proposals=list(props), n_iters=iters,
                                 random_state=rs)
    if form == 'warm_state':
        # a supplied consistent state (centers, labels, distances); the SAME
        # arrays are handed in on every call of this case, as a caller does
        # who restarts the refinement from one k-centers state
        st = STATE.get('warm_state')
        if st is None or st[0] is not X:
            ref = cc.ref_metric(mname)
            Dm = np.stack([ref(X, X[i]) for i in inds], axis=1)
            st = (X, Dm.argmin(axis=1), Dm.min(axis=1))
            STATE['warm_state'] = st
            STATE['warm_state_keep'] = (st[1].copy(), st[2].copy())
        return kmedoids.kmedoids(X, m, cluster_center_inds=list(inds),
                                 assignments=st[1], distances=st[2],
                                 n_iters=iters, random_state=rs)
    if form == 'KM_est':
        # the estimator has no random_state argument: warm start, so that the
        # only randomness is the proposals (seeded through numpy's global RNG
        # is NOT promised; reproducibility is therefore not asserted for it)
        e = kmedoids.KMedoids(m, n_clusters=k, n_iters=iters)
        e.fit(X, cluster_center_inds=list(inds))
        return e.result_
    if form == 'HY_est':
        e = hybrid.KHybrid(m, n_clusters=k, kmedoids_updates=iters,
                           random_state=rs, mpi_mode=False)
        e.fit(X)
        return e.result_
    return hybrid.hybrid(X, m, n_iters=iters, n_clusters=k, random_state=rs)


def run_case(ctx, kind, rng, idx):
    X, info, mname, k, iters, form, seed, inds, props = make_case(rng)
    desc = dict(info, metric=mname, k=k, sweeps=iters, form=form, seed=seed,
                inds=inds, proposals=props if form == 'props' else None,
                X=X if X.size <= 100 else 'elided')
    ctx.describe(desc)
    ctx.seen('forms', form)
    if form == 'mpi1':
        if kind == 'fresh':
            form = 'hybrid'
        else:
            return run_mpi_form(ctx, rng, idx, X, info, mname, k, iters, seed)
    if kind == 'fresh':
        if form == 'KM_est':
            form = 'warm'     # the estimator takes no seed: nothing promised
        return run_fresh(ctx, rng, idx, X, mname, k, iters, form, seed, inds,
                         props)
    tol = cc.tol_for(X)
    U = cc.unit(X) ** 2          # costs are squared distances
    ctx.sweeps = []
    try:
        res = execute(X, mname, k, iters, form, seed, inds, props)
    except Exception as e:  # noqa
        ctx.crash('pam.%s.raised' % form, e)
        return
    sweeps = ctx.sweeps
    K = len(res.center_indices)
    if form not in ('hybrid', 'HY_est') and K != k:
        ctx.violation('pam.cluster-count-changed', 'asked %d got %d' % (k, K))
    if len(sweeps) != iters:
        ctx.violation('pam.sweep-count', 'asked %d sweeps, observed %d' % (
            iters, len(sweeps)))
    acc, rej = check_sweeps(ctx, X, mname, sweeps, K, form == 'props')
    cc.check_result(ctx, X, mname, res, 'pam.result')
    final_cost = cc.msq(res.distances)
    # hybrid never worse than the k-centers it starts from
    if form in ('hybrid', 'HY_est'):
        kc = kcenters.kcenters(X, cc.metric_arg(mname), n_clusters=k)
        c0 = cc.msq(kc.distances)
        ctx.count('hybrid_vs_kcenters')
        if final_cost > c0 + tol * (U + c0):
            ctx.violation('pam.hybrid-worse-than-kcenters',
                          'hybrid cost %.12g > k-centers cost %.12g' % (
                              final_cost, c0))
        if sweeps and sweeps[0]['in_inds'] != [int(i) for i in
                                                kc.center_indices]:
            ctx.violation('pam.hybrid-handover',
                          'sweeps did not start from the k-centers centers')
    # reproducibility with the same seed (global RNG perturbed in between)
    np.random.seed(int(rng.integers(0, 2 ** 31)))
    np.random.random(int(rng.integers(1, 50)))
    ctx.sweeps = []
    res2 = execute(X, mname, k, iters, form, seed, inds, props)
    ctx.count('repro_pairs')
    if form == 'warm_state':
        k1, k2 = STATE['warm_state_keep']
        if not (np.array_equal(STATE['warm_state'][1], k1) and
                np.array_equal(STATE['warm_state'][2], k2)):
            ctx.violation('pam.supplied-state-overwritten',
                          'the labels/distances handed to kmedoids() were '
                          'modified by the call')
    if form != 'KM_est' and result_digest(res) != result_digest(res2):
        ctx.violation('pam.not-reproducible',
                      'same seed %d gave different results' % seed)
    # RandomState object / None keep the guarantees
    if idx % 3 == 0:
        ctx.sweeps = []
        rs = np.random.RandomState(seed) if idx % 2 else None
        res3 = execute(X, mname, k, iters, form, seed, inds, props, rs=rs) \
            if rs is not None else \
            kmedoids.kmedoids(X, cc.metric_arg(mname), n_clusters=k,
                              n_iters=iters, random_state=None)
        check_sweeps(ctx, X, mname, ctx.sweeps,
                     len(res3.center_indices), form == 'props' and rs is not None)
        cc.check_result(ctx, X, mname, res3, 'pam.result-rs')
        ctx.count('randomstate_or_none_runs')
    # one more sweep never costs more (fixed int seed)
    if idx % 2 == 0 and form != 'KM_est':
        ctx.sweeps = []
        res4 = execute(X, mname, k, iters + 1, form, seed, inds, props)
        ctx.count('n_plus_one_pairs')
        c4 = cc.msq(res4.distances)
        if c4 > final_cost + tol * (U + final_cost):
            ctx.violation('pam.more-sweeps-worse',
                          '%d sweeps cost %.12g, %d sweeps cost %.12g' % (
                              iters, final_cost, iters + 1, c4))
    # explicit proposals vs independent reference PAM (tie-free data)
    if form == 'props' and info['geom'] in ('uniform', 'clustered') and \
            X.dtype == np.float64:
        exp, amb = ref_pam(X, mname, inds, props, iters)
        if amb:
            ctx.count('ambiguous_reference_pam')
        else:
            ctx.count('reference_pam_compared')
            if [int(i) for i in res.center_indices] != exp:
                ctx.violation('pam.differs-from-reference',
                              'centers %s, reference PAM gives %s' % (
                                  list(res.center_indices), exp))
    if acc >= 1 and rej >= 1:
        ctx.nontriv(X.tobytes(), mname, k, iters, form, seed)
    ctx.seen('acc_rej_pattern', '%d/%d' % (min(acc, 9), min(rej, 9)))
    if idx % 400 == 0:
        ctx.sample(dict(desc, accepted=acc, rejected=rej,
                        history=[[round(c, 6) for c in sw['costs']]
                                 for sw in sweeps][:2]))


def flat_result(res):
    ci = [int(c[1]) if isinstance(c, tuple) else int(c)
          for c in res.center_indices]
    return util.ClusterResult(center_indices=ci, distances=res.distances,
                              assignments=res.assignments,
                              centers=res.centers)


def run_mpi_form(ctx, rng, idx, X, info, mname, k, iters, seed):
    """The (rank, index) route of k-hybrid / k-medoids on a one-rank world:
    function and estimator form.  Result-level guarantees only."""
    m = cc.metric_arg(mname, np.random.default_rng(seed))
    tol = cc.tol_for(X)
    U = cc.unit(X) ** 2          # costs are squared distances
    est = bool(rng.random() < 0.5)
    tag = 'mpi1-est' if est else 'mpi1-fn'
    ctx.seen('forms', tag)

    def run(n_it):
        if est:
            e = hybrid.KHybrid(m, n_clusters=k, kmedoids_updates=n_it,
                               random_state=seed, mpi_mode=True)
            e.fit(X)
            return e.result_
        return hybrid.hybrid(X, m, n_iters=n_it, n_clusters=k,
                             random_state=seed, mpi_mode=True)
    try:
        res = run(iters)
        res_b = run(iters)
        res_more = run(iters + 1)
    except Exception as e:  # noqa
        ctx.crash('pam.%s.raised' % tag, e)
        return
    ctx.count('mpi_form_results')
    ctx.count('sweeps_checked', 0)
    if not all(isinstance(c, tuple) and int(c[0]) == 0
               for c in res.center_indices):
        ctx.violation('pam.mpi1.index-form', 'center indices %r' % (
            list(res.center_indices)[:4],))
        return
    fr, fb, fm = flat_result(res), flat_result(res_b), flat_result(res_more)
    if len(fr.center_indices) != min(k, len(X)):
        ctx.violation('pam.cluster-count-changed', '[%s] asked %d got %d' % (
            tag, k, len(fr.center_indices)))
    cc.check_result(ctx, X, mname, fr, 'pam.result[mpi1]')
    cc.check_result(ctx, X, mname, fm, 'pam.result[mpi1]')
    kc = kcenters.kcenters(X, m, n_clusters=k)
    c0, c1, c2 = cc.msq(kc.distances), cc.msq(fr.distances), \
        cc.msq(fm.distances)
    ctx.count('hybrid_vs_kcenters')
    if c1 > c0 + tol * (U + c0):
        ctx.violation('pam.hybrid-worse-than-kcenters',
                      '[%s] hybrid cost %.12g > k-centers cost %.12g' % (
                          tag, c1, c0))
    if c2 > c1 + tol * (U + c1):
        ctx.violation('pam.more-sweeps-worse',
                      '[%s] %d sweeps cost %.12g, %d sweeps cost %.12g' % (
                          tag, iters, c1, iters + 1, c2))
    if result_digest(fr) != result_digest(fb):
        ctx.violation('pam.not-reproducible',
                      '[%s] same seed %d gave different results' % (tag, seed))
    if len(fr.center_indices) >= 3:
        ctx.nontriv(X.tobytes(), mname, k, iters, tag, seed)


def run_fresh(ctx, rng, idx, X, mname, k, iters, form, seed, inds, props):
    """Same seed in a fresh interpreter gives the same result."""
    res = execute(X, mname, k, iters, form, seed, inds, props)
    mine = result_digest(res)
    env = dict(os.environ)
    env.pop('LD_PRELOAD', None)
    # every other fresh interpreter runs with -O (assert statements and
    # __debug__ blocks compiled away), as deployments do
    opt = ['-O'] if idx % 2 else []
    if opt:
        ctx.count('fresh_processes_with_O')
    p = subprocess.run(
        [sys.executable] + opt + ['-m', 'vf.props.c09', str(ctx.spec['seed']),
                                  str(idx)], env=env, stdout=subprocess.PIPE,
        stderr=subprocess.PIPE, text=True, timeout=300)
    ctx.count('fresh_process_pairs')
    ctx.count('sweeps_checked', 0)
    try:
        other = json.loads(p.stdout.strip().splitlines()[-1])['digest']
    except Exception:  # noqa
        ctx.violation('pam.fresh-process-failed', p.stderr[-500:])
        return
    if other != mine:
        ctx.violation('pam.not-reproducible-fresh-process',
                      'seed %d: digest differs between processes' % seed)
    else:
        ctx.nontriv('fresh', X.tobytes(), seed, form)


if __name__ == '__main__':
    import logging
    import warnings
    warnings.filterwarnings('ignore')
    logging.disable(logging.INFO)
    from vf.ctx import rng_for
    from enspara.cluster import kcenters as _kc, kmedoids as _km, hybrid as _hy
    kcenters, kmedoids, hybrid = _kc, _km, _hy
    rng = rng_for(int(sys.argv[1]), 'C09', 'fresh', int(sys.argv[2]))
    X, info, mname, k, iters, form, seed, inds, props = make_case(rng)
    if form == 'KM_est':
        form = 'warm'
    if form == 'mpi1':
        form = 'hybrid'
    r = execute(X, mname, k, iters, form, seed, inds, props)
    print(json.dumps({'digest': result_digest(r)}))
