"""C17 - pathways are real, bottleneck-optimal and never over-explain the flux."""
import numpy as np

from vf import msmcommon as mc

RULE = ('cases = (a) net-flux matrices from tpt.net_fluxes on seeded reversible '
        'chains, (b) seeded conserved DAG flows with several sources/sinks, '
        '(c) arbitrary weighted digraphs with cycles, dead ends, parallel '
        'routes and graphs without any route; n 3-9 with exhaustive '
        'simple-path enumeration, up to 40 without; both removal schemes, '
        'num_paths 1..inf, flux_cutoff 0.3..1; matrices scaled by 2^-60..2^20; the residual matrix of every '
        'iteration is captured; non-trivial = run returning >=2 paths on a '
        'graph with >=2 distinct source-sink routes; distinct by (matrix '
        'hash, sources, sinks, scheme, limits)')
REQUIRED = ['paths_calls', 'top_path_calls', 'iterations_checked',
            'exhaustive_comparisons']
ASSUMPTIONS = ['exhaustive optimum = DFS over all simple source->sink paths '
               '(n<=9); ties in bottleneck accept any optimal path']


def shards(tier):
    if tier == 'quick':
        return [dict(kind='paths', n=2400, parts=16, timeout=900),
                dict(kind='huge', n=1, parts=1, timeout=900, start=900000),
                dict(kind='threads', n=8, parts=4, timeout=900,
                     start=950000)]
    return [dict(kind='paths', n=64000, parts=16, timeout=3400),
            dict(kind='huge', n=4, parts=2, timeout=3400, start=900000),
            dict(kind='threads', n=200, parts=8, timeout=3400, start=950000)]


def setup(ctx):
    global path, tpt
    from enspara.tpt import path as _p, tpt as _t
    from vf import monitor
    path, tpt = _p, _t
    ctx.iters = []

    def pre(a, k):
        # top_path(sources, sinks, net_flux): snapshot the matrix it sees
        nf = a[2] if len(a) > 2 else k['net_flux']
        if np.shape(nf)[0] > 5000:
            return None               # the huge kind: no 8 GB snapshot
        return np.array(nf, dtype=float, copy=True)

    def post(tok, a, k, res, exc):
        if exc is None and tok is not None:
            p_, f_ = res
            ctx.iters.append((tok, np.array(p_), float(f_)))
    ctx.h_top = monitor.attach(path, 'top_path', pre=pre, post=post)
    ctx.h_paths = monitor.attach(path, 'paths')


def teardown(ctx):
    ctx.count('paths_calls', ctx.h_paths.calls)
    ctx.count('top_path_calls', ctx.h_top.calls)


def best_bottleneck(NF, src, snk):
    """Exhaustive DFS over all simple paths source->sink; returns the largest
    bottleneck and the number of distinct routes (0 if none)."""
    n = len(NF)
    snk_set = set(snk)
    src_set = set(src)
    best = -np.inf
    count = 0

    def dfs(u, seen, bott):
        nonlocal best, count
        if u in snk_set:
            count += 1
            if bott > best:
                best = bott
            # a path may continue through a sink to another sink
        for v in np.where(NF[u] > 0)[0]:
            v = int(v)
            if v in seen or v in src_set:
                continue
            dfs(v, seen | {v}, min(bott, NF[u, v]))
    for s in src:
        dfs(s, {s}, np.inf)
    return best, count


def gen_graph(rng):
    kind = ['tpt', 'dag', 'digraph', 'digraph'][int(rng.integers(0, 4))]
    small = rng.random() < 0.7
    if kind == 'tpt':
        from vf.props.c07 import gen_sets
        T, pi = mc.reversible_chain(rng, nmin=3, nmax=9 if small else 30)
        n = len(T)
        src, snk = gen_sets(rng, n)
        NF = np.asarray(tpt.net_fluxes(T, src, snk, populations=pi),
                        dtype=float)
        return kind, NF, src, snk, True
    n = int(rng.integers(3, 10 if small else 41))
    if kind == 'dag':
        # conserved flow on a DAG: sum of random source->sink path flows
        order = rng.permutation(n)
        ns = int(rng.integers(1, max(2, n // 3)))
        nk = int(rng.integers(1, max(2, n // 3)))
        src = [int(x) for x in order[:ns]]
        snk = [int(x) for x in order[-nk:]]
        mid = [int(x) for x in order[ns:n - nk]]
        NF = np.zeros((n, n))
        for _ in range(int(rng.integers(1, 8))):
            s = src[int(rng.integers(0, ns))]
            t = snk[int(rng.integers(0, nk))]
            k = int(rng.integers(0, len(mid) + 1))
            inner = sorted(rng.choice(len(mid), size=min(k, len(mid)),
                                      replace=False)) if mid else []
            p_ = [s] + [mid[i] for i in inner] + [t]
            f = float(rng.integers(1, 20)) if rng.random() < 0.5 else \
                float(rng.uniform(0.1, 5))
            for a_, b_ in zip(p_[:-1], p_[1:]):
                NF[a_, b_] += f
        return kind, NF, src, snk, True
    dens = rng.uniform(0.1, 0.6)
    NF = (rng.random((n, n)) < dens) * np.where(
        rng.random((n, n)) < 0.5, rng.integers(1, 10, size=(n, n)),
        rng.uniform(0.1, 9, size=(n, n)))
    NF[np.diag_indices(n)] = 0
    from vf.props.c07 import gen_sets
    src, snk = gen_sets(rng, n)
    if rng.random() < 0.15:
        NF[:, snk] = 0            # no route at all
    return kind, NF.astype(float), src, snk, False


def run_huge(ctx, rng, idx):
    """More states than a 16-bit index can address (the search keeps a
    predecessor table indexed by state): two planted, disjoint routes through
    states numbered above 32767 in an otherwise empty flux matrix (zero pages
    are never touched, so the matrix costs little real memory)."""
    n = 32768 + int(rng.integers(64, 400))
    NF = np.zeros((n, n), dtype=np.float16)
    hi = [int(x) for x in rng.choice(np.arange(32768, n), size=9,
                                     replace=False)]
    s_, t_ = hi[0], hi[1]
    A = [s_] + hi[2:2 + int(rng.integers(1, 4))] + [t_]
    B = [s_] + hi[5:5 + int(rng.integers(1, 4))] + [t_]
    fA, fB = 0.5, 0.25
    for r, f in ((A, fA), (B, fB)):
        for a, b in zip(r[:-1], r[1:]):
            NF[a, b] = f
    ctx.describe({'n_states': n, 'route_A': A, 'route_B': B,
                  'fluxes': [fA, fB]})
    ctx.count('huge_matrices')
    # only the search itself: paths() would copy the matrix several times
    # (tens of GB of real memory through its float64 temporaries)
    try:
        p1, f1 = path.top_path([s_], [t_], NF)
        NF2 = NF                      # remove route A by hand, search again
        for a, b in zip(A[:-1], A[1:]):
            NF2[a, b] = 0
        p2, f2 = path.top_path([s_], [t_], NF2)
    except Exception as e:  # noqa
        ctx.crash('paths.huge.raised', e)
        return
    ps, fs = [p1, p2], [f1, f2]
    ctx.count('paths_checked', 2)
    if [int(x) for x in p1] != A or abs(float(f1) - fA) > 1e-6:
        ctx.violation('paths.huge.top-path-wrong',
                      '%d states: top path %s flux %r, planted widest route '
                      '%s flux %s' % (n, [int(x) for x in p1], float(f1), A,
                                      fA))
    got = [[int(x) for x in p_] for p_ in ps]
    if got != [A, B] or np.abs(np.asarray(fs, dtype=float) -
                               np.array([fA, fB])).max() > 1e-3:
        ctx.violation('paths.huge.paths-wrong',
                      '%d states: paths %s fluxes %s, planted %s with %s' % (
                          n, got, np.asarray(fs).tolist(), [A, B], [fA, fB]))
    ctx.nontriv('huge', n, tuple(A), tuple(B))


def canon_paths(res):
    ps, fs = res
    return ([[int(x) for x in p_] for p_ in ps],
            [float(x) for x in np.asarray(fs, dtype=float).ravel()])


def run_threads(ctx, rng, idx):
    """The pathway search is pure Python with no thread-count knob, but
    nothing stops a caller from running it for many (source, sink) pairs from
    a thread pool: several Python threads run paths()/top_path at once (same
    matrix size), with GIL yields injected at line boundaries inside the
    search; every result must equal the one obtained alone."""
    from vf.monitor import threaded_differential
    orig_top = getattr(path.top_path, '__vf_orig__', path.top_path)
    orig_paths = getattr(path.paths, '__vf_orig__', path.paths)
    n = int(rng.integers(6, 25))
    jobs, descs = [], []
    for _ in range(int(rng.integers(6, 14))):
        NF = np.where(rng.random((n, n)) < 0.35,
                      rng.integers(1, 20, size=(n, n)), 0).astype(float)
        NF[np.diag_indices(n)] = 0
        s_ = [int(x) for x in rng.choice(n, size=2, replace=False)]
        scheme = ['subtract', 'bottleneck'][int(rng.integers(0, 2))]
        k = int(rng.integers(1, 5))
        jobs.append(lambda NF=NF, s_=s_, scheme=scheme, k=k: canon_paths(
            orig_paths([s_[0]], [s_[1]], NF, num_paths=k,
                       remove_path=scheme)))
        descs.append({'n': n, 'source': s_[0], 'sink': s_[1],
                      'scheme': scheme, 'num_paths': k})
    ctx.describe({'jobs': descs})
    helpers = [orig_top, orig_paths]
    for nm in ('_remove_bottleneck', '_subtract_path_flux', '_work_arrays'):
        f = getattr(path, nm, None)
        if f is not None:
            helpers.append(getattr(f, '__wrapped__', f))
    serial, thr, inj = threaded_differential(
        jobs, helpers, seed=int(rng.integers(0, 2 ** 31)), n_threads=4)
    ctx.count('threaded_jobs', len(jobs))
    ctx.count('yields_injected', inj.yields)
    if any(t is None for t in thr):
        ctx.count('threaded_jobs_unfinished')
        return
    for d, a, b in zip(descs, serial, thr):
        if a != b:
            ctx.violation('paths.differs-under-threads',
                          'paths(%s) alone gives %s, from one of 4 concurrent '
                          'Python threads %s' % (d, str(a)[:160],
                                                 str(b)[:160]))
            break
    if inj.yields > 50:
        ctx.nontriv('threads', n, len(jobs), idx)


def run_case(ctx, kind_, rng, idx):
    from vf.monitor import Frozen
    if kind_ == 'huge':
        return run_huge(ctx, rng, idx)
    if kind_ == 'threads':
        return run_threads(ctx, rng, idx)
    kind, NF, src, snk, conserved = gen_graph(rng)
    n = len(NF)
    # pathways are scale-equivariant: rare-event fluxes are tiny numbers
    scale = 1.0
    if rng.random() < 0.5:
        scale = float(2.0 ** int(rng.integers(-60, 20)))
        NF = NF * scale
    NF = mc.relayout(rng, NF)
    scheme = ['subtract', 'bottleneck'][int(rng.integers(0, 2))]
    num_paths = [np.inf, 1, 2, 3, 5][int(rng.integers(0, 5))]
    cutoff = [1 - 1e-10, 0.9, 0.6, 0.3][int(rng.integers(0, 4))]
    desc = {'graph': kind, 'n': n, 'sources': src, 'sinks': snk,
            'scale': scale,
            'scheme': scheme, 'num_paths': repr(num_paths), 'cutoff': cutoff,
            'net_flux': NF if n <= 7 else 'elided'}
    ctx.describe(desc)
    ctx.seen('graph_kinds', kind + '/' + scheme)
    src_arg = [list, tuple, np.array][idx % 3](src)
    snk_arg = [np.array, list, tuple][(idx // 3) % 3](snk)
    fz = Frozen(NF, src_arg, snk_arg)
    ctx.iters = []
    try:
        ps, fl = path.paths(src_arg, snk_arg, NF, remove_path=scheme,
                            num_paths=num_paths, flux_cutoff=cutoff)
    except Exception as e:  # noqa
        ctx.crash('paths.raised', e)
        return
    if fz.changed():
        ctx.violation('paths.mutates-input', '%s modified' % fz.changed())
    fl = np.asarray(fl, dtype=float)
    iters = ctx.iters
    if len(ps) != len(fl):
        ctx.violation('paths.lengths', '%d paths, %d fluxes' % (
            len(ps), len(fl)))
        return
    if len(ps) > num_paths:
        ctx.violation('paths.too-many', '%d paths for num_paths=%s' % (
            len(ps), num_paths))
    if len(iters) < len(ps):
        ctx.violation('paths.monitor', 'top_path observed %d times for %d '
                      'paths' % (len(iters), len(ps)))
        return
    total = NF[src, :].sum()
    routes_first = None
    for i, (p_, f_) in enumerate(zip(ps, fl)):
        M, mp, mf = iters[i]
        ctx.count('iterations_checked')
        p_ = [int(x) for x in p_]
        if list(mp) != p_ or mf != f_:
            ctx.violation('paths.monitor', 'path %d differs from what '
                          'top_path returned' % i)
            return
        tagp = 'path %d %s (flux %.6g)' % (i, p_, f_)
        if len(p_) < 2 or p_[0] not in src or p_[-1] not in snk:
            ctx.violation('paths.endpoints', tagp + ' does not run from a '
                          'source to a sink')
            return
        if len(set(p_)) != len(p_):
            ctx.violation('paths.not-simple', tagp + ' repeats a state')
            return
        edges = M[p_[:-1], p_[1:]]
        if np.any(edges <= 0):
            ctx.violation('paths.edge-without-flux', tagp + ' uses an edge '
                          'with residual flux %s' % edges.min())
            return
        if abs(edges.min() - f_) > 1e-12 * abs(f_):
            ctx.violation('paths.flux-not-bottleneck',
                          tagp + ': smallest edge flux is %.12g' % edges.min())
            return
        if n <= 9:
            best, routes = best_bottleneck(M, src, snk)
            ctx.count('exhaustive_comparisons')
            if i == 0:
                routes_first = routes
            if f_ < best - 1e-12 * abs(best):
                ctx.violation('paths.not-widest',
                              tagp + ': a path with bottleneck %.12g exists '
                              '(iteration %d, scheme %s)' % (best, i, scheme))
                return
        if i > 0 and f_ > fl[i - 1] * (1 + 1e-12):
            ctx.violation('paths.flux-increased',
                          'flux %d %.12g > flux %d %.12g [%s]' % (
                              i, f_, i - 1, fl[i - 1], scheme))
            return
    # no path although one exists?
    if len(ps) == 0 and n <= 9:
        best, routes = best_bottleneck(NF, src, snk)
        ctx.count('exhaustive_comparisons')
        if routes > 0:
            ctx.violation('paths.missed', 'no path returned but %d routes '
                          'exist (best bottleneck %.6g)' % (routes, best))
    if len(fl) and fl.sum() > total * (1 + 1e-9):
        ctx.violation('paths.over-explains[%s]' % scheme,
                      'sum of path fluxes %.12g exceeds total source outflow '
                      '%.12g (%d paths, scheme %s)' % (
                          fl.sum(), total, len(fl), scheme))
    if conserved and scheme == 'subtract' and len(fl) and total > 0:
        frac = fl.sum() / total
        if len(ps) < num_paths and frac < cutoff - 1e-9:
            ctx.violation('paths.under-explains',
                          'conserved flow: explained fraction %.12g < cutoff '
                          '%.12g with %d < num_paths=%s paths' % (
                              frac, cutoff, len(ps), num_paths))
        # stopped on cue: the fraction before the last path was below cutoff
        if len(fl) >= 2 and (fl[:-1].sum() / total) >= cutoff + 1e-9:
            ctx.violation('paths.too-many',
                          'cutoff %.6g already reached after %d paths' % (
                              cutoff, len(fl) - 1))
    # single top_path call agrees with paths()[0]
    if len(ps):
        try:
            tp, tf = path.top_path(src, snk, NF)
            if [int(x) for x in tp] != [int(x) for x in ps[0]] or tf != fl[0]:
                ctx.violation('paths.top-path-differs',
                              'top_path != first path of paths()')
        except Exception as e:  # noqa
            ctx.crash('top_path.raised', e)
    if len(ps) >= 2 and (routes_first is None or routes_first >= 2):
        ctx.nontriv(NF.tobytes(), src, snk, scheme, repr(num_paths), cutoff)
    if idx % 600 == 0:
        ctx.sample(dict(desc, paths=[list(map(int, p_)) for p_ in ps][:4],
                        fluxes=fl[:4]))
