"""C04 - every builder returns a valid, stationary and (where promised)
reversible model, faithfully for every container."""
import warnings

import numpy as np
import scipy.sparse as sp

from vf import msmcommon as mc

RULE = ('cases = seeded strongly connected count matrices (n 2-14, integer or '
        'real, zeros, self-counts) x builder (normalize, transpose, mle) x '
        'prior (None, scalar, dense matrix) x eq-probs on/off, each run in '
        'all 8 containers (ndarray + 7 sparse-matrix formats; 2 sparse-array '
        'formats for information only); non-trivial = matrix with >=1 zero '
        'off-diagonal entry and n>=3 for which all 8 containers were '
        'compared; distinct by (matrix hash, builder, prior kind, eq flag)')
REQUIRED = ['builder_calls', 'containers_compared']
ASSUMPTIONS = ['dense (ndarray) result is the reference for the other '
               'containers, itself checked against the defining identities',
               'SciPy sparse arrays are outside the property: recorded, never '
               'a violation']


def shards(tier):
    if tier == 'quick':
        return [dict(kind='build', n=640, parts=16, timeout=900),
                dict(kind='large', n=4, parts=4, timeout=900, start=900000)]
    return [dict(kind='build', n=16000, parts=16, timeout=3400),
            dict(kind='large', n=64, parts=8, timeout=3400, start=900000)]


def setup(ctx):
    global builders
    from enspara.msm import builders as _b
    from vf import monitor
    builders = _b
    ctx.hooks = {nm: monitor.attach(builders, nm) for nm in (
        'normalize', 'transpose', 'mle', '_row_normalize',
        '_apply_prior_counts', 'eq_probs')}


def teardown(ctx):
    for nm, h in ctx.hooks.items():
        ctx.count('calls_' + nm, h.calls)
    ctx.count('builder_calls', sum(ctx.hooks[n].calls for n in (
        'normalize', 'transpose', 'mle')))


def identities(ctx, bname, Cp, Cout, T, pi, eqflag, tag, eps=1e-12):
    """Defining identities on dense arrays.  Cp = counts + prior."""
    ok = True

    def bad(key, msg):
        nonlocal ok
        ok = False
        ctx.violation('builder.%s.%s' % (bname, key), '[%s] %s' % (tag, msg))
    n = len(Cp)
    rs = Cp.sum(axis=1)
    if T.shape != (n, n):
        bad('shape', 'T has shape %s' % (T.shape,))
        return False
    if np.any(T < -1e-15) or not np.all(np.isfinite(T)):
        bad('negative-or-nan', 'T has negative or non-finite entries')
    if np.abs(T.sum(axis=1) - 1).max() > max(1e-10, eps):
        bad('rows-not-stochastic', 'row sums %s' % T.sum(axis=1))
    if bname == 'normalize':
        if np.abs(T - Cp / rs[:, None]).max() > eps:
            bad('not-counts-over-rowsum', 'T != C/rowsum(C)')
        if np.abs(Cout - Cp).max() > eps * (1 + np.abs(Cp).max()):
            bad('counts-out', 'returned counts != counts (+ prior)')
    elif bname == 'transpose':
        S = Cp + Cp.T
        if np.abs(T - S / S.sum(axis=1)[:, None]).max() > eps:
            bad('not-symmetrised', 'T != (C+C^T)/rowsum')
        if np.abs(Cout - S / 2).max() > eps * (1 + np.abs(S).max()):
            bad('counts-out', 'returned counts != (C+C^T)/2')
        if pi is not None and np.abs(pi - S.sum(axis=1) / S.sum()).max() > eps:
            bad('populations', 'pi != rowsum(C+C^T)/total')
    else:
        if np.abs(Cout - Cp).max() > eps * (1 + np.abs(Cp).max()):
            bad('counts-out', 'returned counts != counts (+ prior)')
    if pi is None:
        if eqflag and True:
            bad('populations-missing', 'populations requested but None')
        return ok
    pi = np.asarray(pi)
    if pi.ndim != 1 or pi.shape[0] != n or pi.dtype.kind != 'f':
        bad('populations-shape', 'pi has shape %s dtype %s' % (
            pi.shape, pi.dtype))
        return False
    if abs(pi.sum() - 1) > max(1e-10, eps) or np.any(pi < -1e-12):
        bad('populations-not-distribution', 'sum %.15g min %.3g' % (
            pi.sum(), pi.min()))
    tolst = 1e-6 if bname == 'mle' else max(1e-9, eps)
    if np.abs(pi @ T - pi).max() > tolst:
        bad('not-stationary', '|pi T - pi| = %.3g' % np.abs(pi @ T - pi).max())
    if bname in ('transpose', 'mle'):
        F = pi[:, None] * T
        if np.abs(F - F.T).max() > tolst:
            bad('not-reversible', 'max |pi_i T_ij - pi_j T_ji| = %.3g' %
                np.abs(F - F.T).max())
    return ok


def run_large(ctx, rng, idx):
    """>= 1000 states: sparse input takes the sparse (ARPACK) eigen-solver
    for the populations, dense input LAPACK; a slowly mixing chain."""
    from vf.monitor import Frozen
    C = mc.large_metastable_counts(rng)
    n = C.shape[0]
    bname = ['normalize', 'normalize', 'transpose'][int(rng.integers(0, 3))]
    fn = getattr(builders, bname)
    Cp = C.toarray().astype(float)
    ctx.describe({'builder': bname, 'n': n, 'kind': 'large-metastable',
                  'nnz': int(C.nnz)})
    res = {}
    for cname in ['ndarray', 'csr', ['csc', 'coo', 'lil'][
            int(rng.integers(0, 3))]]:
        Cin = mc.to_container(Cp.astype(np.int64), cname)
        fz = Frozen(Cin)
        try:
            with warnings.catch_warnings():
                warnings.simplefilter('ignore')
                Cout, T, pi = fn(Cin, calculate_eq_probs=True)
        except Exception as e:  # noqa
            ctx.violation('builder.%s.raised[%s]' % (
                bname, 'sparse' if cname != 'ndarray' else 'dense'),
                '%s input, %d states: %s: %s' % (
                    cname, n, type(e).__name__, str(e)[:300]))
            continue
        if fz.changed():
            ctx.violation('builder.%s.mutates-input' % bname, cname)
        if type(T) is not type(Cin):
            ctx.violation('builder.%s.container' % bname,
                          '%s in, T came back as %s' % (cname,
                                                         type(T).__name__))
        Td, Cd = mc.dense(T).astype(float), mc.dense(Cout).astype(float)
        identities(ctx, bname, Cp, Cd, Td, pi, True, cname + '/large')
        res[cname] = (Td, None if pi is None else np.asarray(pi))
        ctx.count('containers_compared')
        ctx.count('large_sparse_cases')
    if 'ndarray' in res:
        for cname, (Td, p) in res.items():
            if cname != 'ndarray' and res['ndarray'][1] is not None and (
                    p is None or np.abs(Td - res['ndarray'][0]).max() > 1e-12
                    or np.abs(p - res['ndarray'][1]).max() > 1e-8):
                ctx.violation('builder.%s.container-dependent' % bname,
                              '%s result differs from dense result (%d '
                              'states)' % (cname, n))
    ctx.nontriv('large', Cp.tobytes(), bname)


def run_case(ctx, kind, rng, idx):
    from vf.monitor import Frozen
    if kind == 'large':
        return run_large(ctx, rng, idx)
    bname = ['normalize', 'transpose', 'mle'][int(rng.integers(0, 3))]
    # the Prinz iteration converges very slowly on periodic chains (minutes
    # in pure Python): periodic structures only for the two direct builders
    C = mc.strongly_connected_counts(
        rng, n=1 if rng.random() < 0.04 else None,    # one-state models too
        allow_periodic=bname != 'mle')
    if rng.random() < 0.3:
        mx = float(np.max(C))
        if np.issubdtype(C.dtype, np.integer):
            cand = ([np.int32, np.uint32] if mx < 2e9 else []) + [np.uint64] + (
                [np.uint16, np.int16] if mx < 3e4 else [])
        else:
            cand = [np.float32]
        C = C.astype(cand[int(rng.integers(0, len(cand)))])
    n = len(C)
    pk = ['none', 'none', 'scalar', 'matrix'][int(rng.integers(0, 4))]
    if pk == 'scalar':
        prior = [1, 0.5, 1 / n][int(rng.integers(0, 3))]
    elif pk == 'matrix':
        prior = rng.integers(0, 3, size=(n, n)).astype(float)
    else:
        prior = None
    eqflag = bool(rng.random() < 0.75)
    Cp = np.asarray(C, dtype=float) + (0 if prior is None else prior)
    fn = getattr(builders, bname)
    # counts stored in float32 / 16-bit integers are processed in single
    # precision by scipy (asfptype) and numpy: agreement is then required to
    # single precision only
    eps = 5e-6 if (C.dtype == np.float32 or C.dtype.itemsize <= 2) else 1e-12
    desc = {'builder': bname, 'prior': pk, 'eq': eqflag, 'n': n,
            'C': C if n <= 8 else 'elided', 'dtype': str(C.dtype)}
    ctx.describe(desc)
    results = {}
    for cname in mc.CONTAINERS + list(mc.SPARSE_ARRAY):
        info_only = cname in mc.SPARSE_ARRAY
        Cin = mc.to_container(C, cname, rng)
        pr = None if prior is None else (
            prior if np.isscalar(prior) else prior.copy())
        fz = Frozen(Cin, pr)
        try:
            with warnings.catch_warnings():
                warnings.simplefilter('ignore')
                # the switch as computed code holds it: a numpy boolean
                # (the result of a comparison) or 0/1, not only True/False
                eqarg = [eqflag, np.bool_(eqflag), int(eqflag)][idx % 3]
                Cout, T, pi = fn(Cin, prior_counts=pr,
                                 calculate_eq_probs=eqarg)
        except Exception as e:  # noqa
            if info_only:
                ctx.count('sparse_array_raised_info_only')
                continue
            ctx.violation('builder.%s.raised[%s]' % (
                bname, 'sparse' if cname != 'ndarray' else 'dense'),
                '%s input%s: %s: %s' % (
                    cname, '' if prior is None else ' with %s prior' % pk,
                    type(e).__name__, str(e)[:300]))
            continue
        if info_only:
            ctx.count('sparse_array_ran_info_only')
            continue
        if fz.changed():
            ctx.violation('builder.%s.mutates-input' % bname,
                          '%s: %s modified' % (cname, fz.changed()))
        # container faithfulness
        densified = prior is not None and cname != 'ndarray'
        for nm, out in (('T', T), ('counts', Cout)):
            if densified:
                # adding a prior may (but need not) densify a sparse input
                if not isinstance(out, np.ndarray) and \
                        type(out) is not type(Cin):
                    ctx.violation('builder.%s.container' % bname,
                                  '%s + prior: %s came back as %s' % (
                                      cname, nm, type(out).__name__))
            elif type(out) is not type(Cin):
                ctx.violation('builder.%s.container' % bname,
                              '%s in, %s came back as %s' % (
                                  cname, nm, type(out).__name__))
        Td, Cd = mc.dense(T).astype(float), mc.dense(Cout).astype(float)
        ok = identities(ctx, bname, Cp, Cd, Td, pi,
                        eqflag or bname == 'mle' and False, cname, eps)
        results[cname] = (Td, Cd, None if pi is None else np.asarray(pi))
        ctx.count('containers_compared')
    if 'ndarray' in results:
        T0, C0, p0 = results['ndarray']
        for cname, (Td, Cd, p) in results.items():
            if cname == 'ndarray':
                continue
            if np.abs(Td - T0).max() > eps or np.abs(Cd - C0).max() > eps * (
                    1 + np.abs(C0).max()) or ((p is None) != (p0 is None)) \
                    or (p is not None and np.abs(p - p0).max() > max(1e-9,
                                                                     eps)):
                ctx.violation('builder.%s.container-dependent' % bname,
                              '%s result differs from dense result' % cname)
    offz = (np.asarray(C) == 0) & ~np.eye(n, dtype=bool)
    if n >= 3 and offz.any() and len(results) == len(mc.CONTAINERS):
        ctx.nontriv(np.asarray(C).tobytes(), bname, pk, eqflag)
    if idx % 150 == 0:
        ctx.sample(desc)
