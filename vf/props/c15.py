"""C15 - stored and bulk-loaded data come back bit-identical."""
import os
import shutil
import tempfile
import time

import numpy as np

from vf.model import ramodel as M

RULE = ('cases = (A) ragged / rectangular arrays (1-300 rows straddling 9/10 '
        'and 99/100, 1-D and vector elements, 9 dtypes, compression 0-9, '
        'tags) saved with ra.save and loaded with strides 1-7, key subsets in '
        'arbitrary order, single keys; (B) 1-12 generated trajectory files '
        '(xtc/h5, lengths 1-40, unique-id coordinates) loaded with '
        'load_as_concatenated under stride / atom_indices / per-file args / '
        'length hints / 1-8 worker processes while a wrapper on md.load '
        'inherited by the forked workers delays files so that completion '
        'order differs from file order; non-trivial = (A) >=10 rows of unequal '
        'length with stride>1 or key subset, (B) >=3 files of unequal length '
        'whose observed completion order is not the file order; distinct by '
        'content hash + configuration')
REQUIRED = ['h5_roundtrips', 'parallel_loads', 'worker_completions_logged']
ASSUMPTIONS = ['(B) reference = md.load of each file alone with the same '
               'keyword arguments, concatenated in file order',
               'stride on a rectangular ndarray stored as one node is not '
               'generated (docstring and implementation define different '
               'axes for it)']

DT = [np.int8, np.int16, np.int32, np.int64, np.uint8, np.float32,
      np.float64, np.bool_, np.uint16]


def shards(tier):
    if tier == 'quick':
        return [dict(kind='h5', n=960, parts=12, timeout=900),
                dict(kind='trj', n=48, parts=4, timeout=900,
                     env={'OMP_NUM_THREADS': 1})]
    return [dict(kind='h5', n=24000, parts=12, timeout=3400),
            dict(kind='trj', n=1200, parts=4, timeout=3400,
                 env={'OMP_NUM_THREADS': 1})]


def setup(ctx):
    global ra, R, load_mod, md, mio
    import mdtraj as _md
    from enspara.ra import ra as _ra
    from enspara.util import load as _l
    from enspara.mpi import io as _mio
    from vf import monitor
    ra, R, load_mod, md, mio = _ra, _ra.RaggedArray, _l, _md, _mio
    ctx.h_save = monitor.attach(ra, 'save')
    ctx.h_load = monitor.attach(ra, 'load')
    ctx.h_lac = monitor.attach(load_mod, 'load_as_concatenated')
    ctx.tmp = tempfile.mkdtemp(prefix='vf-c15-',
                               dir=os.environ.get('VF_RUNDIR'))
    # completion-order perturbation: wrap md.load in the parent so that the
    # forked pool workers inherit the wrapper
    ctx.delays = {}
    ctx.complog = os.path.join(ctx.tmp, 'completions.log')
    real_load = _md.load

    parent = os.getpid()

    def delayed_load(filename, *a, **k):
        out = real_load(filename, *a, **k)
        d = ctx.delays.get(filename)
        if d is not None and os.getpid() != parent:
            # pool worker: delay, then record the completion
            time.sleep(d)
            fd = os.open(ctx.complog, os.O_WRONLY | os.O_APPEND | os.O_CREAT)
            os.write(fd, ('%d %s\n' % (os.getpid(), filename)).encode())
            os.close(fd)
        return out
    delayed_load.__vf_orig__ = real_load
    _md.load = delayed_load
    ctx.real_load = real_load


def teardown(ctx):
    ctx.count('save_calls', ctx.h_save.calls)
    ctx.count('load_calls', ctx.h_load.calls)
    ctx.count('load_as_concatenated_calls', ctx.h_lac.calls)
    shutil.rmtree(ctx.tmp, ignore_errors=True)


# --------------------------------------------------------------------------
# A: HDF5 round trips
# --------------------------------------------------------------------------

def rows_equal(ctx, got, rows, what, key):
    """got: RaggedArray or ndarray (single row)."""
    if type(got).__name__ == 'RaggedArray':
        n = len(got)
        grows = [np.asarray(got[i]) for i in range(n)]
        gdt = got._data.dtype
    else:
        grows = [np.asarray(got)]
        gdt = grows[0].dtype
    if len(grows) != len(rows):
        ctx.violation(key + '.row-count', '%s: %d rows, expected %d' % (
            what, len(grows), len(rows)))
        return False
    for i, (g, r) in enumerate(zip(grows, rows)):
        if g.shape != r.shape or not np.array_equal(g, r):
            ctx.violation(key + '.values', '%s: row %d differs (shape %s vs '
                          '%s)' % (what, i, g.shape, r.shape))
            return False
    if gdt != rows[0].dtype:
        ctx.violation(key + '.dtype', '%s: dtype %s, stored %s' % (
            what, gdt, rows[0].dtype))
        return False
    return True


def run_h5(ctx, rng, idx):
    nrows = [1, 2, 3, 9, 10, 11, 99, 100, 101, int(rng.integers(1, 301)),
             int(rng.integers(1, 30))][int(rng.integers(0, 11))]
    if ctx.spec.get('tier') == 'thorough' and rng.random() < 0.01:
        nrows = [999, 1000, 1001][int(rng.integers(0, 3))]
    dtype = DT[int(rng.integers(0, len(DT)))]
    elem = [(), (), (3,), (2, 2)][int(rng.integers(0, 4))]
    equal = rng.random() < 0.25
    rows = M.make_rows(rng, nrows=nrows, maxlen=7, equal=equal,
                       elem_shape=elem, dtype=np.int64)
    if dtype == np.bool_:
        rows = [(r % 3 == 0) for r in rows]
    elif np.issubdtype(dtype, np.integer):
        info = np.iinfo(dtype)
        rows = [(r % min(int(info.max) + 1, 2 ** 62)).astype(dtype)
                for r in rows]
    else:
        rows = [(r / 7.0).astype(dtype) for r in rows]
    comp = int(rng.integers(0, 10))
    tag = ['arr', 'x', 'traj'][int(rng.integers(0, 3))]
    fn = os.path.join(ctx.tmp, 'a%d.h5' % idx)
    lens = [len(r) for r in rows]
    desc = {'nrows': nrows, 'dtype': np.dtype(dtype).name, 'elem': list(elem),
            'equal': equal, 'compression': comp, 'tag': tag,
            'lens': lens if nrows <= 20 else 'elided'}
    ctx.describe(desc)
    ctx.seen('h5_configs', '%s/%s/rows%s' % (np.dtype(dtype).name, elem,
                                             len(str(nrows))))
    a = R([r.copy() for r in rows])
    try:
        ra.save(fn, a, compression_level=comp, tag=tag)
        full = ra.load(fn)
    except Exception as e:  # noqa
        ctx.crash('h5.roundtrip.raised', e)
        return
    ctx.count('h5_roundtrips')
    ok = rows_equal(ctx, full, rows, 'full load', 'h5.roundtrip')
    # stride
    stride = int(rng.integers(1, 8))
    try:
        st = ra.load(fn, stride=stride)
        rows_equal(ctx, st, [r[::stride] for r in rows],
                   'stride=%d' % stride,
                   'h5.stride[%s]' % ('single-row' if nrows == 1 else 'multi'))
    except Exception as e:  # noqa
        ctx.crash('h5.stride.raised', e)
    # key subset in arbitrary order (keys as stored)
    import tables
    with tables.open_file(fn) as h:
        keys = [k.name for k in h.list_nodes('/')]
    if keys != sorted(keys) or len(keys) != nrows:
        ctx.violation('h5.keys', 'stored keys not sorted / wrong count')
    ksel = [int(x) for x in rng.choice(nrows, size=int(rng.integers(
        1, min(nrows, 6) + 1)), replace=False)]
    if rng.random() < 0.3:
        # rows drawn with replacement (a bootstrap sample of trajectories):
        # a repeated key is a repeated row
        ksel = [int(x) for x in rng.integers(0, nrows, size=int(
            rng.integers(2, 8)))]
        ksel[-1] = ksel[0]
        ctx.count('key_subsets_with_repeats')
    try:
        sub = ra.load(fn, keys=[keys[i] for i in ksel], stride=stride)
        rows_equal(ctx, sub, [rows[i][::stride] for i in ksel],
                   'keys %s stride %d' % (ksel, stride),
                   'h5.keys[%s]' % ('single' if len(ksel) == 1 else 'multi'))
    except Exception as e:  # noqa
        ctx.crash('h5.keys.raised', e)
    # rectangular ndarray round trip
    if idx % 3 == 0:
        arr = np.array([rows[0]] * int(rng.integers(1, 5)))
        fn2 = os.path.join(ctx.tmp, 'r%d.h5' % idx)
        try:
            ra.save(fn2, arr, compression_level=comp)
            back = ra.load(fn2)
            ctx.count('h5_roundtrips')
            if not isinstance(back, np.ndarray) or back.dtype != arr.dtype \
                    or not np.array_equal(back, arr):
                ctx.violation('h5.rect-roundtrip', 'ndarray %s %s came back '
                              'as %s' % (arr.shape, arr.dtype,
                                         type(back).__name__))
        except Exception as e:  # noqa
            ctx.crash('h5.rect.raised', e)
        finally:
            if os.path.exists(fn2):
                os.remove(fn2)
    os.remove(fn)
    if nrows >= 10 and len(set(lens)) > 1 and (stride > 1 or len(ksel) > 1) \
            and ok:
        ctx.nontriv('h5', nrows, np.dtype(dtype).name, elem, tuple(lens),
                    stride, tuple(ksel))
    if idx % 300 == 0:
        ctx.sample(desc)


# --------------------------------------------------------------------------
# B: parallel trajectory loading
# --------------------------------------------------------------------------

def run_trj(ctx, rng, idx):
    from vf import trajgen
    d = os.path.join(ctx.tmp, 'c%d' % idx)
    os.makedirs(d)
    try:
        nfiles = int(rng.integers(1, 13))
        n_atoms = int(rng.integers(3, 8))
        fmt = ['h5', 'xtc'][int(rng.integers(0, 2))]
        many = idx % 6 == 5
        if many:
            # more files than any batching/chunking constant one would pick
            nfiles = int(rng.integers(65, 160))
            n_atoms = 3
        lens = [int(x) for x in rng.integers(1, 6 if many else 41,
                                              size=nfiles)]
        if rng.random() < 0.2:
            lens = [lens[0]] * nfiles
        top = trajgen.write_top(d, n_atoms)
        files = []
        for i, L in enumerate(lens):
            xyz = ((i % 50) * 40.0 + (i // 50) * 7.0 +
                   np.arange(L)[:, None, None] +
                   np.arange(n_atoms)[None, :, None] * 0.01 +
                   np.arange(3)[None, None, :] * 0.001).astype(np.float32)
            if fmt == 'h5' and i % 2 == 0:
                # raw-float format: plant values whose sign bit / payload a
                # value comparison cannot see (-0.0)
                xyz = xyz.copy()
                xyz[::2, 0, 1] = -0.0
            files.append(trajgen.write(d, 't%03d' % i, xyz, fmt=fmt))
        mode = ['kwargs', 'args', 'plain', 'frames'][int(rng.integers(0, 4))]
        stride = int(rng.integers(1, 6))
        atoms = np.sort(rng.choice(n_atoms, size=int(rng.integers(
            1, n_atoms + 1)), replace=False)) if rng.random() < 0.5 else None
        base = {} if fmt == 'h5' else {'top': top}
        if mode == 'kwargs':
            kws = [dict(base, stride=stride)] * nfiles
            if atoms is not None:
                kws = [dict(k, atom_indices=atoms) for k in kws]
            call_kw = dict(kws[0])
            call_args = None
        elif mode == 'args':
            kws = [dict(base, stride=int(rng.integers(1, 6)))
                   for _ in range(nfiles)]
            if atoms is not None:
                kws = [dict(k, atom_indices=atoms) for k in kws]
            call_kw, call_args = {}, kws
        elif mode == 'frames':
            kws = [dict(base, frame=int(rng.integers(0, L))) if
                   rng.random() < 0.5 else dict(base) for L in lens]
            call_kw, call_args = {}, kws
        else:
            kws = [dict(base)] * nfiles
            call_kw, call_args = dict(base), None
        # reference: each file alone
        ref = [ctx.real_load(f, **k) for f, k in zip(files, kws)]
        ref_lens = [len(t) for t in ref]
        ref_xyz = np.concatenate([t.xyz for t in ref])
        hint = rng.random() < 0.4
        desc = {'files': nfiles, 'fmt': fmt, 'lens': lens, 'mode': mode,
                'stride': stride if mode == 'kwargs' else None,
                'atoms': None if atoms is None else atoms.tolist(),
                'length_hint': hint}
        ctx.describe(desc)
        orders = set()
        # the application's multiprocessing start method is process-level
        # state too: 'spawn' / 'forkserver' (the default on macOS, Windows and
        # newer Pythons) pickle the pool's initargs instead of inheriting
        # them.  Restored in this function's finally clause.
        import multiprocessing as _mp
        spawnish = idx % 25 == 7 and not many
        if spawnish:
            _mp.set_start_method(['spawn', 'forkserver'][(idx // 25) % 2],
                                 force=True)
            ctx.count('loads_under_spawn_or_forkserver')
        for procs in ([2] if spawnish else
                      [1, 2, 4, 8][:int(rng.integers(2, 5))]):
            # first file slowest, others random: completion order != file order
            ctx.delays.clear()
            for i, f in enumerate(files):
                ctx.delays[f] = (0.03 if i == 0 else
                                 float(rng.uniform(0, 0.012 if not many
                                                   else 0.002)))
            if os.path.exists(ctx.complog):
                os.remove(ctx.complog)
            try:
                if call_args is not None:
                    L, xyz = load_mod.load_as_concatenated(
                        files, lengths=list(ref_lens) if hint else None,
                        processes=procs, args=[dict(k) for k in call_args])
                else:
                    L, xyz = load_mod.load_as_concatenated(
                        files, lengths=list(ref_lens) if hint else None,
                        processes=procs, **call_kw)
            except Exception as e:  # noqa
                ctx.crash('parallel-load.raised', e)
                return
            finally:
                ctx.delays.clear()
            ctx.count('parallel_loads')
            order = []
            if os.path.exists(ctx.complog):
                for ln in open(ctx.complog):
                    fn = ln.split(None, 1)[1].strip()
                    if fn in files:
                        order.append(files.index(fn))
            # the example-frame load of file 0 in the parent is not a worker
            ctx.count('worker_completions_logged', len(order))
            orders.add(tuple(order))
            ctx.seen('completion_orders', ' '.join(map(str, order))[:60])
            if list(L) != ref_lens:
                ctx.violation('parallel-load.lengths',
                              'lengths %s, individually loaded %s (procs=%d, '
                              'mode %s)' % (list(L), ref_lens, procs, mode))
                return
            if xyz.shape != ref_xyz.shape or not np.array_equal(
                    xyz, ref_xyz) or np.ascontiguousarray(
                    xyz).tobytes() != np.ascontiguousarray(ref_xyz).tobytes():
                bad = 'shape %s vs %s' % (xyz.shape, ref_xyz.shape)
                if xyz.shape == ref_xyz.shape:
                    w = np.where((xyz != ref_xyz).any(axis=(1, 2)))[0]
                    bad = 'frames %s differ' % w[:8].tolist()
                    if len(w) == 0:
                        bad = 'equal as values but not bit for bit (%d ' \
                              'elements, e.g. the sign of zero)' % int((
                                  np.ascontiguousarray(xyz).view(np.uint32) !=
                                  np.ascontiguousarray(ref_xyz).view(
                                      np.uint32)).sum())
                ctx.violation('parallel-load.content',
                              'result != concatenation in file order: %s '
                              '(procs=%d, completion order %s)' % (
                                  bad, procs, order))
                return
        # the MPI front end on a one-rank world is the same load
        if idx % 3 == 0 and not many:
            try:
                kw2 = {'args': [dict(k) for k in call_args]} if \
                    call_args is not None else dict(call_kw)
                gl, sx = mio.load_trajectory_as_striped(files, processes=2,
                                                        **kw2)
                ctx.count('striped_single_rank_loads')
                if [int(x) for x in gl] != ref_lens or not np.array_equal(
                        sx, ref_xyz):
                    ctx.violation('parallel-load.striped-single-rank',
                                  'load_trajectory_as_striped on one rank '
                                  'differs from the serial concatenation')
            except Exception as e:  # noqa
                ctx.crash('parallel-load.striped.raised', e)
        # in-memory parallel concatenation
        if idx % 3 == 1 and not many:
            sel = None if rng.random() < 0.5 else 'index 0 to %d' % (
                int(rng.integers(0, n_atoms)))
            try:
                tj = load_mod.concatenate_trjs([t for t in ref], atoms=sel,
                                               n_procs=int(rng.integers(1, 5)))
                ctx.count('concatenate_trjs_calls')
                if sel is None:
                    ex = ref_xyz
                else:
                    ai = ref[0].top.select(sel)
                    ex = ref_xyz[:, ai]
                if tj.xyz.shape != ex.shape or not np.array_equal(tj.xyz, ex):
                    ctx.violation('parallel-load.concatenate_trjs',
                                  'concatenate_trjs(atoms=%r) differs from '
                                  'the in-order concatenation' % sel)
            except Exception as e:  # noqa
                ctx.crash('parallel-load.concatenate_trjs.raised', e)
        reordered = any(list(o) != sorted(o) for o in orders if o)
        if nfiles >= 3 and len(set(ref_lens)) > 1 and reordered:
            ctx.nontriv('trj', tuple(lens), fmt, mode, stride,
                        None if atoms is None else tuple(atoms.tolist()))
        if idx % 12 == 0:
            ctx.sample(dict(desc, completion_orders=[list(o) for o in
                                                     list(orders)[:3]]))
    finally:
        import multiprocessing as _mp2
        if _mp2.get_start_method(allow_none=True) != 'fork':
            _mp2.set_start_method('fork', force=True)
        shutil.rmtree(d, ignore_errors=True)


def run_case(ctx, kind, rng, idx):
    if kind == 'h5':
        run_h5(ctx, rng, idx)
    else:
        run_trj(ctx, rng, idx)
