"""C07 - committors and mean first-passage times satisfy their first-step
equations."""
import numpy as np
import scipy.sparse as sp

from vf import msmcommon as mc

RULE = ('cases = seeded irreducible row-stochastic matrices (n 3-40; dense '
        'random, ring+edges, reversible, nearly reducible) x disjoint '
        'non-empty source/sink sets of every size up to n/2 x container '
        '(ndarray in C/Fortran/strided layout, csr, csc, coo, lil) x lag time '
        '(0.2 .. 10); non-trivial = case with '
        '>=2 sources or >=2 sinks and >=2 intermediate states; distinct by '
        '(matrix hash, sources, sinks)')
REQUIRED = ['committor_calls', 'mfpt_calls', 'residuals_checked']
ASSUMPTIONS = ['first-step equations evaluated in dense float64; residual '
               'tolerance 1e-9 x cond(I-Q) (capped at 1e-4)']
CONT = ['ndarray', 'csr', 'csc', 'coo', 'lil']


def shards(tier):
    if tier == 'quick':
        return [dict(kind='tpt', n=1600, parts=16, timeout=900)]
    return [dict(kind='tpt', n=48000, parts=16, timeout=3400)]


def setup(ctx):
    global core
    from enspara.tpt import core as _c
    from vf import monitor
    core = _c
    ctx.h_c = monitor.attach(core, 'committors')
    ctx.h_m = monitor.attach(core, 'mfpts')
    ctx.h_q = monitor.attach(core, '_I_m_Q')


def teardown(ctx):
    ctx.count('committor_calls', ctx.h_c.calls)
    ctx.count('mfpt_calls', ctx.h_m.calls)
    ctx.count('I_m_Q_calls', ctx.h_q.calls)


def gen_sets(rng, n):
    ns = int(rng.integers(1, max(2, n // 2)))
    nk = int(rng.integers(1, max(2, n // 2)))
    ns = min(ns, n - 1)
    nk = min(nk, n - ns)
    perm = rng.permutation(n)
    return [int(x) for x in perm[:ns]], [int(x) for x in perm[ns:ns + nk]]


def cond_of(T, absorbing):
    n = len(T)
    tr = [i for i in range(n) if i not in set(absorbing)]
    if not tr:
        return 1.0
    A = np.eye(len(tr)) - T[np.ix_(tr, tr)]
    try:
        return float(np.linalg.cond(A))
    except Exception:  # noqa
        return np.inf


def run_case(ctx, kind, rng, idx):
    from vf.monitor import Frozen
    T, tkind = mc.irreducible_chain(rng, periodic=0.12, nmin=2)
    n = len(T)
    src, snk = gen_sets(rng, n)
    lag = [1.0, 2.5, 10.0, 0.5, 0.2, 3][int(rng.integers(0, 6))]
    desc = {'n': n, 'chain': tkind, 'sources': src, 'sinks': snk, 'lag': lag,
            'T': T if n <= 6 else 'elided'}
    ctx.describe(desc)
    ctx.seen('chain_kinds', tkind)
    cq = cond_of(T, src + snk)
    cm = cond_of(T, snk)
    tolq = min(1e-4, 1e-9 * max(cq, 1.0))
    tolm = min(1e-4, 1e-9 * max(cm, 1.0))
    q_by = {}
    m_by = {}
    # a state may be written Python-style from the end (-1 is the last state)
    neg = idx % 5 == 2
    if neg:
        ctx.count('negative_index_spellings')
    spell = (lambda L: [i - n if k % 2 == 0 else i for k, i in enumerate(L)]) \
        if neg else (lambda L: list(L))
    src_arg = [list, np.array, tuple][idx % 3](spell(src))
    snk_arg = [np.array, tuple, list][(idx // 3) % 3](spell(snk))
    if len(src) == 1 and rng.random() < 0.5:
        src_arg = spell(src)[0]
    if len(snk) == 1 and rng.random() < 0.5:
        snk_arg = spell(snk)[0]
    inter = [i for i in range(n) if i not in src and i not in snk]
    for cname in CONT:
        Tin = mc.to_container(T, cname, rng)
        fz = Frozen(Tin, src_arg, snk_arg)
        try:
            q = np.asarray(core.committors(Tin, src_arg, snk_arg), dtype=float)
        except Exception as e:  # noqa
            ctx.violation('committors.raised[%s]' % (
                'dense' if cname == 'ndarray' else 'sparse'),
                '%s: %s: %s' % (cname, type(e).__name__, str(e)[:200]))
            continue
        if fz.changed():
            ctx.violation('committors.mutates-input', '%s: %s' % (
                cname, fz.changed()))
        q = q.reshape(-1)
        ctx.count('residuals_checked')
        if q.shape != (n,):
            ctx.violation('committors.shape', '%s' % (q.shape,))
            continue
        bad = None
        if np.any(np.abs(q[src]) > 1e-12):
            bad = 'source committor %s != 0' % q[src]
        elif np.any(np.abs(q[snk] - 1) > 1e-12):
            bad = 'sink committor %s != 1' % q[snk]
        elif q.min() < -tolq or q.max() > 1 + tolq:
            bad = 'committor outside [0,1]: min %.3g max %.3g' % (
                q.min(), q.max())
        elif inter:
            r = np.abs(q[inter] - T[inter] @ q).max()
            if r > tolq:
                bad = 'first-step residual %.3g (tolerance %.3g)' % (r, tolq)
        if bad:
            ctx.violation('committors.wrong', '[%s] %s' % (cname, bad))
        q_by[cname] = q
    if 'ndarray' in q_by:
        for c, q in q_by.items():
            if np.abs(q - q_by['ndarray']).max() > 10 * tolq:
                ctx.violation('committors.container-dependent',
                              '%s differs from dense by %.3g' % (
                                  c, np.abs(q - q_by['ndarray']).max()))
    # ---- the same matrix object refilled in place between two calls -------
    if idx % 2 == 0 and inter:
        T2, _ = mc.irreducible_chain(rng, n=n)
        buf = np.array(T)
        try:
            core.committors(buf, src_arg, snk_arg)
            core.mfpts(buf, sinks=snk_arg)
            if n <= 12:
                core.mfpts(buf)          # all-pairs form, computed populations
            buf[...] = T2
            if n <= 12:
                Ab = np.asarray(core.mfpts(buf), dtype=float)
                cA = max(cond_of(T2, [j]) for j in range(n))
                tA = min(1e-3, 1e-8 * max(cA, 1.0))
                for j in range(n):
                    nj = [i for i in range(n) if i != j]
                    r = Ab[nj, j] - (1 + T2[nj] @ Ab[:, j])
                    if np.abs(r).max() > tA * max(1.0, np.abs(Ab[:, j]).max()):
                        ctx.violation(
                            'tpt.stale-after-refill',
                            'the same matrix object refilled with another '
                            'chain: column %d of the all-pairs MFPT table '
                            'misses its first-step equation by %.3g' % (
                                j, np.abs(r).max()))
                        break
            qb = np.asarray(core.committors(buf, src_arg, snk_arg),
                            dtype=float).reshape(-1)
            mb = np.asarray(core.mfpts(buf, sinks=snk_arg), dtype=float
                            ).reshape(-1)
            ctx.count('refilled_matrix_calls')
            c2 = max(cond_of(T2, src + snk), cond_of(T2, snk), 1.0)
            t2 = min(1e-4, 1e-9 * c2)
            non = [i for i in range(n) if i not in snk]
            if np.abs(qb[inter] - T2[inter] @ qb).max() > t2 or \
                    np.abs(mb[non] - (1 + T2[non] @ mb)).max() > t2 * max(
                        1.0, np.abs(mb).max()):
                ctx.violation('tpt.stale-after-refill',
                              'the same matrix object refilled with another '
                              'chain: committors / mfpts do not follow the '
                              'new contents')
        except Exception as e:  # noqa
            ctx.crash('tpt.refill.raised', e)
    # ---- mean first passage times --------------------------------------
    pops = mc.stationary(T) if rng.random() < 0.5 else None
    for cname in CONT:
        Tin = mc.to_container(T, cname, rng)
        fz = Frozen(Tin, snk_arg, pops)
        try:
            # keyword form and the positional form in the documented order
            # (tprob, sinks, populations, lagtime)
            if idx % 3 == 0:
                m = np.asarray(core.mfpts(Tin, snk_arg, pops, lag),
                               dtype=float).reshape(-1)
                m1 = np.asarray(core.mfpts(Tin, snk_arg, pops),
                                dtype=float).reshape(-1)
                ctx.count('positional_calls', 2)
            else:
                m = np.asarray(core.mfpts(Tin, sinks=snk_arg,
                                          populations=pops, lagtime=lag),
                               dtype=float).reshape(-1)
                m1 = np.asarray(core.mfpts(Tin, sinks=snk_arg,
                                           populations=pops),
                                dtype=float).reshape(-1)
        except Exception as e:  # noqa
            ctx.violation('mfpts.raised[%s]' % (
                'dense' if cname == 'ndarray' else 'sparse'),
                '%s: %s: %s' % (cname, type(e).__name__, str(e)[:200]))
            continue
        if fz.changed():
            ctx.violation('mfpts.mutates-input', '%s: %s' % (
                cname, fz.changed()))
        ctx.count('residuals_checked')
        non = [i for i in range(n) if i not in snk]
        scale = max(1.0, np.abs(m).max())
        bad = None
        if m.shape != (n,):
            bad = 'shape %s' % (m.shape,)
        elif np.any(np.abs(m[snk]) > 1e-12):
            bad = 'sink mfpt %s != 0' % m[snk]
        elif np.abs(m[non] - (lag + T[non] @ m)).max() > tolm * scale:
            bad = 'first-step residual %.3g (tolerance %.3g)' % (
                np.abs(m[non] - (lag + T[non] @ m)).max(), tolm * scale)
        elif np.abs(m - lag * m1).max() > 1e-9 * scale:
            bad = 'mfpts(lag=%g) != %g * mfpts(lag=1)' % (lag, lag)
        elif np.any(m[non] < lag - 1e-9):
            bad = 'mfpt below one lag time'
        if bad:
            ctx.violation('mfpts.wrong', '[%s] %s' % (cname, bad))
        m_by[cname] = m
    if 'ndarray' in m_by:
        for c, m in m_by.items():
            if np.abs(m - m_by['ndarray']).max() > 10 * tolm * max(
                    1.0, np.abs(m).max()):
                ctx.violation('mfpts.container-dependent',
                              '%s differs from dense' % c)
    # ---- all-pairs table ---------------------------------------------------
    if n <= 20 and idx % 2 == 0:
        cname = CONT[int(rng.integers(0, len(CONT)))]
        Tin = mc.to_container(T, cname, rng)
        fz = Frozen(Tin, pops)
        try:
            A = np.asarray(core.mfpts(Tin, None, pops, lag) if idx % 4 == 0
                           else core.mfpts(Tin, populations=pops,
                                           lagtime=lag), dtype=float)
        except Exception as e:  # noqa
            ctx.violation('mfpts.allpairs.raised[%s]' % (
                'dense' if cname == 'ndarray' else 'sparse'),
                '%s: %s: %s' % (cname, type(e).__name__, str(e)[:200]))
            A = None
        if A is not None:
            if fz.changed():
                ctx.violation('mfpts.mutates-input', 'all-pairs %s' % cname)
            ctx.count('allpairs_checked')
            call = max(cond_of(T, [j]) for j in range(n))
            tola = min(1e-3, 1e-8 * max(call, 1.0))
            if A.shape != (n, n):
                ctx.violation('mfpts.allpairs.shape', '%s' % (A.shape,))
            else:
                if np.abs(np.diag(A)).max() > 1e-9 * max(1, np.abs(A).max()):
                    ctx.violation('mfpts.allpairs.diagonal',
                                  'diagonal not zero: %.3g' %
                                  np.abs(np.diag(A)).max())
                for j in range(n):
                    col = np.asarray(core.mfpts(T, sinks=[j], lagtime=lag),
                                     dtype=float).reshape(-1)
                    if np.abs(A[:, j] - col).max() > tola * max(
                            1.0, np.abs(col).max()):
                        ctx.violation(
                            'mfpts.allpairs.column-mismatch',
                            'column %d differs from mfpts(sinks=[%d]) by %.3g'
                            % (j, j, np.abs(A[:, j] - col).max()))
                        break
    if (len(src) >= 2 or len(snk) >= 2) and len(inter) >= 2:
        ctx.nontriv(T.tobytes(), src, snk)
    if idx % 400 == 0:
        ctx.sample(desc)
