"""C01 - clustering results are self-consistent for every algorithm and input."""
import numpy as np

from vf import clustercommon as cc

RULE = ('cases = seeded data sets of distinct points (n 2-60/400, dim 1-6, '
        'float64/float32/int32/int64, 4 geometries) x metric (euclidean, '
        'manhattan, NumPy chebyshev callable) x one of 15 entry-point forms '
        '(k-centers/k-medoids/k-hybrid; function/estimator; cold, warm x4, '
        'init_centers, explicit proposals); non-trivial = k-medoids/hybrid '
        'run in which all three PAM reassignment branches were non-empty, or '
        'k-centers run with >=3 centers; distinct by (data hash, metric, '
        'entry form, parameters)')
REQUIRED = ['results_checked', 'pam_probe_hits']
ASSUMPTIONS = ['reference metric = float64 NumPy; tolerance 1e-9 (2e-5 for '
               'float32 inputs) relative',
               'init_centers / warm-start centers are frames of the data']

ENTRIES = ['kc_n', 'kc_r', 'kc_both', 'KC_est', 'kc_init', 'km_cold',
           'km_warm_inds', 'km_warm_pairs', 'km_warm_ad', 'km_warm_all',
           'KM_est', 'hy_fn', 'HY_est', 'hy_init', 'km_props']


def shards(tier):
    if tier == 'quick':
        return [dict(kind='small', n=2400, parts=16, timeout=900)]
    return [dict(kind='small', n=64000, parts=14, timeout=3400),
            dict(kind='large', n=1600, parts=2, timeout=3400)]


def setup(ctx):
    global kcenters, kmedoids, hybrid, util
    from enspara.cluster import kcenters as _kc, kmedoids as _km, \
        hybrid as _hy, util as _u
    from vf import monitor
    kcenters, kmedoids, hybrid, util = _kc, _km, _hy, _u
    ctx.branches = {'dn': 0, 'other': 0, 'this': 0, 'all3': 0, 'proposals': 0}
    ctx.case_all3 = False

    def probe(loc):
        a = int(np.count_nonzero(loc['dst_dn']))
        b = int(np.count_nonzero(loc['dst_up_assig_other']))
        c = int(np.count_nonzero(loc['dst_up_assig_this']))
        br = ctx.branches
        br['proposals'] += 1
        br['dn'] += a > 0
        br['other'] += b > 0
        br['this'] += c > 0
        if a and b and c:
            br['all3'] += 1
            ctx.case_all3 = True
    ctx.probe = monitor.LineProbe(
        kmedoids._kmedoids_pam_update,
        'ambig_assigs, ambig_dists = util.assign_to_nearest_center(', probe)
    ctx.info['pam_probe_attached'] = ctx.probe.attached


def teardown(ctx):
    ctx.count('pam_probe_hits', ctx.probe.hits)
    ctx.count('pam_probe_errors', ctx.probe.errors)
    for k, v in ctx.branches.items():
        ctx.count('pam_branch_' + k, v)


class Call:
    """Deferred call whose array-like arguments are fingerprinted before and
    compared after (inputs-not-modified clause)."""

    def __init__(self, fn, *a, **k):
        self.fn, self.a, self.k = fn, a, k

    def __call__(self):
        from vf.monitor import Frozen
        fz = Frozen(*self.a, **self.k)
        out = self.fn(*self.a, **self.k)
        self.changed = fz.changed()
        return out


def prefit(e, X, rng, **kw):
    """Half of the time the estimator has already been fitted on OTHER data
    (different size) before the fit that is checked: a fit must not depend
    on, or be polluted by, an earlier one."""
    if rng.random() < 0.5:
        n0 = int(rng.integers(2, 30))
        X0 = (rng.normal(size=(n0, X.shape[1])) * 7).astype(X.dtype)
        X0 = X0[np.sort(np.unique(X0, axis=0, return_index=True)[1])]
        try:
            e.fit(np.ascontiguousarray(X0))
            # look at the first result the way a user would
            _ = (e.centers_, e.labels_, e.distances_, e.center_indices_)
            if rng.random() < 0.5:
                e.predict(np.ascontiguousarray(X0))
        except Exception:  # noqa
            pass
    before = {k: v for k, v in vars(e).items() if k in (
        'n_clusters', 'cluster_radius', 'n_iters', 'kmedoids_updates',
        'mpi_mode')}
    return before


def run_entry(entry, X, metric_name, rng, p, calls):
    """Execute one entry form.  Returns (result, expect_k or None)."""
    def do(fn, *a, **k):
        c = Call(fn, *a, **k)
        calls.append(c)
        return c()
    m = cc.metric_arg(metric_name, rng)
    ref = cc.ref_metric(metric_name)
    n = len(X)
    k = p['k']
    # the function form also takes the triangle-inequality shortcut
    tri = {'use_triangle_inequality': True} if rng.random() < 0.3 else {}
    if entry == 'kc_n':
        return do(kcenters.kcenters, X, m, n_clusters=k, **tri), k
    if entry == 'kc_r':
        return do(kcenters.kcenters, X, m, dist_cutoff=p['r'],
                  n_clusters=None if p['none'] else np.inf, **tri), None
    if entry == 'kc_both':
        return do(kcenters.kcenters, X, m, n_clusters=k, dist_cutoff=p['r'],
                  **tri), None
    if entry == 'KC_est':
        if p['none']:
            e = kcenters.KCenters(m, n_clusters=k)
        else:
            e = kcenters.KCenters(m, cluster_radius=p['r'], n_clusters=k)
        pb = prefit(e, X, rng)
        do(e.fit, X)
        p['params_changed'] = pb != {k_: v for k_, v in vars(e).items()
                                     if k_ in pb}
        return util.ClusterResult(
            center_indices=e.center_indices_, distances=e.distances_,
            assignments=e.labels_, centers=e.centers_), None
    if entry == 'kc_init':
        ninit = max(1, min(k - 1, int(rng.integers(1, 4))))
        init = X[rng.choice(n, size=min(ninit, n), replace=False)]
        kk = max(k, len(init) + 1)
        init = init.copy()
        if rng.random() < 0.5:
            init = [r for r in init]          # a plain list of frames
        return do(kcenters.kcenters, X, m, n_clusters=min(kk, n),
                  init_centers=init, **tri), None
    seed = p['seed']
    iters = p['iters']
    if entry == 'km_cold':
        return do(kmedoids.kmedoids, X, m, n_clusters=k, n_iters=iters,
                  random_state=seed), k
    inds = rng.choice(n, size=min(k, n), replace=False)
    if entry == 'km_warm_inds':
        form = [np.array, list][int(rng.integers(0, 2))]
        return do(kmedoids.kmedoids,
                  X, m, cluster_center_inds=form(inds.tolist()),
                  n_iters=iters, random_state=seed), k
    if entry == 'km_warm_pairs':
        lens = p['lens']
        starts = np.cumsum([0] + lens[:-1])
        pairs = []
        for g in inds:
            t = int(np.searchsorted(starts, g, side='right') - 1)
            pairs.append([t, int(g - starts[t])])
        xl = lens if rng.random() < 0.5 else np.array(lens)
        return do(kmedoids.kmedoids, X, m, cluster_center_inds=pairs,
                  X_lengths=xl, n_iters=iters, random_state=seed), k
    # a consistent (assignments, distances) state for the chosen centers
    D = np.stack([ref(X, X[i]) for i in inds], axis=1)
    a0 = D.argmin(axis=1)
    d0 = D.min(axis=1)
    if entry == 'km_warm_ad':
        return do(kmedoids.kmedoids, X, m, assignments=a0.copy(),
                  distances=d0.copy(), n_iters=iters, random_state=seed), k
    if entry == 'km_warm_all':
        return do(kmedoids.kmedoids,
                  X, m, assignments=a0.copy(), distances=d0.copy(),
                  cluster_center_inds=[int(i) for i in inds], n_iters=iters,
                  random_state=seed), k
    if entry == 'KM_est':
        e = kmedoids.KMedoids(m, n_clusters=k, n_iters=iters)
        prefit(e, X, rng) if k <= 2 else None
        if rng.random() < 0.5:
            do(e.fit, X)
        else:
            do(e.fit, X, cluster_center_inds=[int(i) for i in inds])
        return util.ClusterResult(
            center_indices=e.center_indices_, distances=e.distances_,
            assignments=e.labels_, centers=e.centers_), k
    if entry == 'hy_fn':
        if p['none']:
            return do(hybrid.hybrid, X, m, n_iters=iters, n_clusters=k,
                      random_state=seed), k
        return do(hybrid.hybrid, X, m, n_iters=iters, n_clusters=k,
                  dist_cutoff=p['r'], random_state=seed), None
    if entry == 'HY_est':
        e = hybrid.KHybrid(m, n_clusters=k, kmedoids_updates=iters,
                           random_state=seed, mpi_mode=False)
        pb = prefit(e, X, rng) if k <= 2 else None
        do(e.fit, X)
        p['params_changed'] = pb is not None and pb != {
            k_: v for k_, v in vars(e).items() if k_ in pb}
        return util.ClusterResult(
            center_indices=e.center_indices_, distances=e.distances_,
            assignments=e.labels_, centers=e.centers_), k
    if entry == 'hy_init':
        init = X[rng.choice(n, size=min(2, n), replace=False)]
        kk = min(max(k, len(init) + 1), n)
        init = init.copy()
        if rng.random() < 0.5:
            init = [r for r in init]          # a plain list of frames
        return do(hybrid.hybrid, X, m, n_iters=iters, n_clusters=kk,
                  init_centers=init, random_state=seed), None
    if entry == 'km_props':
        props = [int(x) for x in rng.integers(0, n, size=k)]
        return do(kmedoids.kmedoids, X, m,
                  cluster_center_inds=[int(i) for i in inds],
                  proposals=props, n_iters=iters, random_state=seed), k
    raise KeyError(entry)


def run_case(ctx, kind, rng, idx):
    from vf.monitor import Frozen
    nmax = 60 if kind == 'small' else 400
    X, info = cc.gen_data(rng, nmax=nmax)
    n = len(X)
    metric_name = ['euclidean', 'manhattan', 'chebyshev'][
        int(rng.integers(0, 3))]
    entry = ENTRIES[int(rng.integers(0, len(ENTRIES)))]
    k = int(rng.integers(1, min(n, 12) + 1))
    over = False
    if n <= 40 and entry in ('kc_n', 'kc_both', 'KC_est', 'hy_fn', 'HY_est') \
            and rng.random() < 0.08:
        # more clusters requested than there are frames: every frame
        # becomes a center and the search stops there
        k, over = n + int(rng.integers(1, 4)), True
    ref = cc.ref_metric(metric_name)
    diam = float(ref(X, X[0]).max())
    # random partition of the frames into "trajectories"
    nl = int(rng.integers(1, min(n, 5) + 1))
    cuts = np.sort(rng.choice(np.arange(1, n), size=nl - 1, replace=False)) \
        if nl > 1 else np.array([], dtype=int)
    lens = [int(x) for x in np.diff(np.concatenate([[0], cuts, [n]]))]
    p = {'k': k, 'r': float(diam * rng.uniform(0.05, 0.9)),
         'none': bool(rng.random() < 0.5),
         'seed': int(rng.integers(0, 2 ** 31)),
         'iters': int(rng.integers(0 if entry.startswith('hy') else 1, 7)),
         'lens': lens}
    desc = dict(info, metric=metric_name, entry=entry, params=p,
                X=X if X.size <= 120 else 'elided')
    ctx.describe(desc)
    ctx.seen('entry_forms', entry)
    ctx.seen('dtype_metric', info['dtype'] + '/' + metric_name)
    ctx.case_all3 = False
    calls = []
    try:
        res, expect_k = run_entry(entry, X, metric_name, rng, p, calls)
    except Exception as e:  # noqa
        ctx.crash('cluster.%s.raised' % entry, e)
        return
    ctx.count('results_checked')
    if over:
        ctx.count('more_clusters_than_frames')
        if expect_k is not None:
            expect_k = n
    if p.get('params_changed'):
        ctx.violation('cluster.%s.fit-rewrites-parameter' % entry,
                      'fit() changed a constructor parameter of the estimator')
    for c in calls:
        if c.changed:
            ctx.violation('cluster.%s.mutates-input' % entry,
                          'argument(s) %s were modified by the call' % (
                              c.changed,))
    ok = cc.check_result(ctx, X, metric_name, res, 'cluster.%s' % entry,
                         expect_k=expect_k)
    K = len(res.centers)
    if ok and ((entry.startswith(('km', 'KM', 'hy', 'HY')) and ctx.case_all3)
               or (entry.startswith(('kc', 'KC')) and K >= 3)):
        ctx.nontriv(X.tobytes(), metric_name, entry, sorted(p.items(),
                                                            key=repr))
    if idx % 600 == 0:
        ctx.sample(dict(desc, n_centers=K))
