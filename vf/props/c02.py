"""C02 - k-centers picks farthest points, never widens the radius, stops on cue."""
import itertools

import numpy as np

from vf import clustercommon as cc

RULE = ('cases = seeded data sets (n 2-60, n<=13 for the exhaustive optimum) x '
        'metric with triangle inequality x stopping criteria (n_clusters in '
        '{None, inf, int} x dist_cutoff in {None, 0, r}) x init_centers '
        '(none / fewer / equal / more than n_clusters; frames of the data, or '
        'foreign points incl. ones that own no frame) x function/estimator, '
        'each run with and without the triangle-inequality shortcut; '
        'non-trivial = >=3 greedy steps replayed with a strictly decreasing '
        'radius at least once; distinct by (data hash, metric, criteria, init)')
REQUIRED = ['iteration_calls', 'greedy_steps_replayed', 'stop_rules_checked']
ASSUMPTIONS = ['reference metric float64 NumPy; a chosen frame within 1e-9 '
               'relative of the maximum counts as a maximiser (tie)',
               'exhaustive optimum over all C(n,K) center subsets of the data '
               'for n<=13 (discrete k-center)']


class StepBound(Exception):
    pass


def shards(tier):
    if tier == 'quick':
        return [dict(kind='kc', n=1920, parts=12, timeout=900),
                dict(kind='foreign', n=800, parts=4, timeout=900),
                dict(kind='ftraj', n=240, parts=4, timeout=900),
                dict(kind='midpoint', n=400, parts=4, timeout=900),
                dict(kind='swarm', n=24, parts=4, timeout=900)]
    return [dict(kind='kc', n=48000, parts=12, timeout=3400),
            dict(kind='foreign', n=16000, parts=4, timeout=3400),
            dict(kind='ftraj', n=6000, parts=4, timeout=3400),
            dict(kind='midpoint', n=12000, parts=4, timeout=3400),
            dict(kind='swarm', n=600, parts=4, timeout=3400)]


def setup(ctx):
    global kcenters, util
    from enspara.cluster import kcenters as _kc, util as _u
    from vf import monitor
    kcenters, util = _kc, _u
    ctx.hist = []

    def post(tok, a, k, res, exc):
        if getattr(ctx, 'no_step_bound', False):
            return          # several ranks (threads) share this recorder
        if exc is None:
            new_center, distances, assignments, center_inds = res
            ctx.hist.append((int(center_inds[-1]), float(distances.max()),
                             bool(k.get('use_triangle_inequality', False))))
            # logical step bound (not a wall clock): k-centers on n distinct
            # frames can never need more than n iterations
            if len(ctx.hist) > len(a[0]) + 2:
                raise StepBound('more k-centers iterations (%d) than frames '
                                '(%d)' % (len(ctx.hist), len(a[0])))
    ctx.h_iter = monitor.attach(kcenters, '_kcenters_iteration', post=post)


def teardown(ctx):
    ctx.count('iteration_calls', ctx.h_iter.calls)


def opt_radius(D, K):
    """Exhaustive optimal discrete K-center radius from the distance matrix."""
    n = len(D)
    best = np.inf
    for S in itertools.combinations(range(n), K):
        r = D[:, S].min(axis=1).max()
        if r < best:
            best = r
    return best


def run_case(ctx, kind, rng, idx):
    from vf.monitor import Frozen
    if kind == 'foreign':
        return run_foreign(ctx, rng, idx)
    if kind == 'ftraj':
        return run_ftraj(ctx, rng, idx)
    if kind == 'midpoint':
        return run_midpoint(ctx, rng, idx)
    if kind == 'swarm':
        return run_swarm(ctx, rng, idx)
    small = rng.random() < 0.35
    X, info = cc.gen_data(rng, nmax=13 if small else 60)
    n = len(X)
    mname = ['euclidean', 'manhattan', 'chebyshev'][int(rng.integers(0, 3))]
    m = cc.metric_arg(mname, rng)
    ref = cc.ref_metric(mname)
    tol = cc.tol_for(X)
    U1 = cc.unit(X)        # tolerances in units of the data's magnitude
    D = np.stack([ref(X, X[i]) for i in range(n)], axis=1)
    diam = D.max()
    # stopping criteria
    nc_kind = ['None', 'inf', 'int'][int(rng.integers(0, 3))]
    co_kind = ['None', '0', 'r'][int(rng.integers(0, 3))]
    if (nc_kind, co_kind) in (('None', 'None'), ('inf', '0'), ('inf', 'None')):
        nc_kind, co_kind = 'int', co_kind
    k = int(rng.integers(1, min(n, 7 if small else 14) + 1))
    r = float(diam * rng.uniform(0.05, 0.8))
    n_clusters = {'None': None, 'inf': np.inf, 'int': k}[nc_kind]
    cutoff = {'None': None, '0': 0, 'r': r}[co_kind]
    eff_n = np.inf if n_clusters is None else n_clusters
    eff_c = 0 if cutoff is None else cutoff
    # init centers
    init_kind = ['none', 'none', 'fewer', 'equal', 'more'][
        int(rng.integers(0, 5))]
    init_idx = None
    if init_kind != 'none':
        base = k if nc_kind == 'int' else 2
        cnt = {'fewer': max(1, base - 1), 'equal': base,
               'more': base + 1}[init_kind]
        cnt = min(cnt, n)
        init_idx = [int(i) for i in rng.choice(n, size=cnt, replace=False)]
    est = rng.random() < 0.25 and not (nc_kind == 'inf')
    desc = dict(info, metric=mname, n_clusters=repr(n_clusters),
                dist_cutoff=cutoff, init=init_idx, estimator=est,
                X=X if X.size <= 100 else 'elided')
    ctx.describe(desc)
    ctx.seen('criteria', '%s/%s/%s' % (nc_kind, co_kind, init_kind))

    as_list = bool(rng.random() < 0.5)

    def run(tri):
        ctx.hist = []
        init = None if init_idx is None else X[init_idx].copy()
        if init is not None and as_list:
            init = [r for r in init]          # a plain list of frames
        fz = Frozen(X, init)
        if est:
            e = kcenters.KCenters(m, n_clusters=n_clusters,
                                  cluster_radius=cutoff)
            e.fit(X, init_centers=init)
            res = e.result_
        else:
            res = kcenters.kcenters(
                X, m, n_clusters=n_clusters, dist_cutoff=cutoff,
                init_centers=init, use_triangle_inequality=tri)
        if fz.changed():
            ctx.violation('kcenters.mutates-input', 'inputs %s modified'
                          % fz.changed())
        return res, list(ctx.hist)

    try:
        res, hist = run(False)
    except StepBound as e:
        ctx.violation('kcenters.does-not-stop', str(e))
        return
    except Exception as e:  # noqa
        ctx.crash('kcenters.raised[%s]' % init_kind, e)
        return
    ci = [int(i) for i in res.center_indices]
    K = len(ci)
    # --- independent replay of the greedy rule --------------------------
    if init_idx is None:
        if ci[0] != 0:
            ctx.violation('kcenters.first-center',
                          'first center is frame %d, not frame 0' % ci[0])
        dmin = D[:, 0].copy()
        chosen_start = 1
        n_init = 1
    else:
        dmin = D[:, init_idx].min(axis=1)
        chosen_start = len(init_idx)
        n_init = len(init_idx)
        if sorted(ci[:n_init]) != sorted(init_idx):
            ctx.violation('kcenters.init-centers-lost',
                          'initial centers %s not among the first centers %s'
                          % (init_idx, ci))
            return
    radii = [float(dmin.max())]
    steps = 0
    strict = False
    for t in range(chosen_start, K):
        c = ci[t]
        mx = dmin.max()
        ctx.count('greedy_steps_replayed')
        steps += 1
        if dmin[c] < mx - tol * (U1 + mx):
            ctx.violation(
                'kcenters.not-farthest',
                'step %d chose frame %d at distance %.12g from the centers so '
                'far, but frame %d is at %.12g' % (
                    t, c, dmin[c], int(dmin.argmax()), mx))
            return
        dmin = np.minimum(dmin, D[:, c])
        radii.append(float(dmin.max()))
        if radii[-1] > radii[-2] + tol * (U1 + radii[-2]):
            ctx.violation('kcenters.radius-grew', 'radius history %s' % radii)
            return
        if radii[-1] < radii[-2] - tol * U1:
            strict = True
    # recorded history (the monitor's view) must match the returned result
    if init_idx is None:
        rec = [h[0] for h in hist]
        if rec != ci:
            ctx.violation('kcenters.history-mismatch',
                          'iteration monitor saw centers %s, result has %s'
                          % (rec, ci))
        rr = [h[1] for h in hist]
        if any(rr[i + 1] > rr[i] + tol * (U1 + rr[i]) for i in range(len(rr) - 1)):
            ctx.violation('kcenters.radius-grew',
                          'recorded radius history %s' % rr)
    final_r = float(np.asarray(res.distances).max())
    if abs(final_r - radii[-1]) > tol * (U1 + radii[-1]):
        ctx.violation('kcenters.radius-wrong',
                      'reported radius %.12g, replayed %.12g' % (
                          final_r, radii[-1]))
    # --- stop rule, both ways --------------------------------------------
    ctx.count('stop_rules_checked')
    stopped_ok = (K >= eff_n) or (radii[-1] <= eff_c + tol * (U1 + eff_c))
    if not stopped_ok:
        ctx.violation('kcenters.stopped-early',
                      'returned with K=%d < n_clusters=%s and radius %.6g > '
                      'cutoff %.6g' % (K, eff_n, radii[-1], eff_c))
    if K > n_init:
        # the last step must have been necessary
        prev_r = radii[-2]
        if (K - 1 >= eff_n) or (prev_r <= eff_c - tol * (U1 + eff_c)):
            ctx.violation('kcenters.stopped-late',
                          'took step %d although K-1=%d, n_clusters=%s, '
                          'radius before %.6g, cutoff %.6g' % (
                              K, K - 1, eff_n, prev_r, eff_c))
    # --- C01 invariants ---------------------------------------------------
    cc.check_result(ctx, X, mname, res, 'kcenters.result')
    # --- 2-approximation -------------------------------------------------
    if init_idx is None and n <= 13 and K <= 7:
        opt = opt_radius(D, K)
        ctx.count('exhaustive_optima')
        if radii[-1] > 2 * opt + tol * (U1 + opt):
            ctx.violation('kcenters.not-2-approx',
                          'radius %.9g > 2 x optimal %.9g for K=%d' % (
                              radii[-1], opt, K))
    # --- triangle-inequality shortcut -----------------------------------
    if not est:
        try:
            res2, hist2 = run(True)
        except Exception as e:  # noqa
            ctx.crash('kcenters.shortcut.raised', e)
            return
        ctx.count('shortcut_pairs')
        ci2 = [int(i) for i in res2.center_indices]
        d1 = np.asarray(res.distances)
        d2 = np.asarray(res2.distances)
        same_d = d1.shape == d2.shape and np.allclose(d1, d2, rtol=tol,
                                                      atol=tol * U1)
        def valid_greedy(seq):
            # is `seq` a farthest-point sequence up to rounding-level ties?
            if init_idx is None:
                if seq[0] != 0:
                    return False
                dm, start = D[:, 0].copy(), 1
            else:
                dm, start = D[:, init_idx].min(axis=1), len(init_idx)
            for c in seq[start:]:
                mx = dm.max()
                if dm[c] < mx - 1e-9 * (U1 + mx):
                    return False
                dm = np.minimum(dm, D[:, c])
            return True
        # the shortcut run must be self-consistent in its own right
        # (distances are true distances to its own centers)
        ok2 = cc.check_result(ctx, X, mname, res2, 'kcenters.shortcut-result')
        if ci2 != ci and ok2 and valid_greedy(ci) and valid_greedy(ci2):
            # both runs follow the greedy rule and report true distances;
            # they broke a rounding-level tie between equally far frames
            # differently
            ctx.count('ambiguous_farthest_ties')
        elif ci2 != ci or not same_d:
            ctx.violation('kcenters.shortcut-differs',
                          'with shortcut centers %s / without %s; distances '
                          'equal=%s' % (ci2, ci, same_d))
        elif not np.array_equal(res.assignments, res2.assignments):
            # identical distances but different labels: equidistant centers
            w = np.where(np.asarray(res.assignments) !=
                         np.asarray(res2.assignments))[0]
            a1 = np.asarray(res.assignments)[w]
            a2 = np.asarray(res2.assignments)[w]
            dd = np.abs(D[w, np.array(ci)[a1]] - D[w, np.array(ci)[a2]])
            if np.all(dd <= tol * (U1 + d1[w])):
                ctx.count('ambiguous_label_ties')
            else:
                ctx.violation('kcenters.shortcut-differs',
                              'labels differ on frames %s' % w.tolist()[:8])
    if steps >= 3 and strict:
        ctx.nontriv(X.tobytes(), mname, nc_kind, co_kind, k, round(r, 9),
                    init_idx)
    if idx % 500 == 0:
        ctx.sample(dict(desc, centers=ci, radii=radii))


def run_foreign(ctx, rng, idx):
    """Initial centers that are NOT frames of the data (e.g. centers of an
    earlier clustering of other data), including centers that end up owning
    no frame."""
    from vf.monitor import Frozen
    intdata = rng.random() < 0.3
    if intdata:
        # integer data with fractional initial centers (e.g. centroids): only
        # a callable metric accepts the mixed types
        X, info = cc.gen_data(rng, nmax=40, nmin=4,
                              dtype=[np.int32, np.int64][int(rng.integers(0, 2))])
        mname = 'chebyshev'
    else:
        X, info = cc.gen_data(rng, nmax=40, nmin=4, dtype=np.float64)
        mname = ['euclidean', 'manhattan', 'chebyshev'][int(rng.integers(0, 3))]
    n, d = X.shape
    m = cc.metric_arg(mname, rng)
    ref = cc.ref_metric(mname)
    tol = 1e-9
    scale = float(np.abs(X).max()) or 1.0
    n_init = int(rng.integers(1, 5))
    base = X[rng.choice(n, size=n_init, replace=False)].astype(float)
    init = base + rng.normal(scale=0.05 * scale, size=base.shape)
    dup = rng.random() < 0.35
    if dup:
        init = np.vstack([init, init[:1] + 1e-7 * scale])
        n_init += 1
    extra = int(rng.integers(0, 5))
    n_clusters = n_init + extra
    Dc = np.stack([ref(X, c) for c in init], axis=1)
    diam = float(Dc.max())
    cutoff = None if rng.random() < 0.6 else float(diam * rng.uniform(0.05, 0.6))
    eff_c = 0 if cutoff is None else cutoff
    owners = len(np.unique(Dc.argmin(axis=1)))
    desc = dict(info, metric=mname, n_init=n_init, duplicate=dup,
                n_clusters=n_clusters, dist_cutoff=cutoff,
                init_owning_frames=owners,
                X=X if X.size <= 60 else 'elided',
                init=init if init.size <= 30 else 'elided')
    ctx.describe(desc)
    ctx.seen('criteria', 'foreign/%s/%s' % (
        'owners<init' if owners < n_init else 'all-own',
        'r' if cutoff is not None else 'n'))
    out = {}
    for tri in (False, True):
        ctx.hist = []
        arg = init.copy()
        fz = Frozen(X, arg)
        try:
            out[tri] = kcenters.kcenters(
                X, m, n_clusters=n_clusters, dist_cutoff=cutoff,
                init_centers=arg, use_triangle_inequality=tri)
        except StepBound as e:
            ctx.violation('kcenters.foreign-init.does-not-stop', str(e))
            return
        except Exception as e:  # noqa
            ctx.violation('kcenters.foreign-init.raised[%s]' % (
                'owners<init' if owners < n_init else 'all-own'),
                '%s: %s' % (type(e).__name__, str(e)[:200]))
            return
        if fz.changed():
            ctx.violation('kcenters.mutates-input', '%s' % fz.changed())
    res = out[False]
    cen = [np.asarray(c, dtype=float) for c in res.centers]
    K = len(cen)
    ci = [int(i) for i in res.center_indices]
    ctx.count('stop_rules_checked')

    def bad(key, msg):
        ctx.violation('kcenters.foreign-init.' + key, msg)
    if len(ci) != K:
        bad('centers-vs-indices', '%d centers but %d center indices '
            '(%d initial centers, %d of them own frames)' % (
                K, len(ci), n_init, owners))
    if K < n_init or any(not np.array_equal(cen[i], init[i])
                         for i in range(min(K, n_init))):
        bad('init-centers-lost', 'the first centers are not the supplied ones')
        return
    if len(ci) == K:
        for t in range(n_init, K):
            if not np.array_equal(cen[t], X[ci[t]]):
                bad('center-is-not-its-frame', 'center %d is not X[%d]' % (
                    t, ci[t]))
                break
    lab = np.asarray(res.assignments)
    dist = np.asarray(res.distances, dtype=float)
    if np.any(lab < 0) or np.any(lab >= K):
        bad('label-range', 'labels %s for %d centers' % (
            np.unique(lab).tolist(), K))
        return
    DK = np.stack([ref(X, c) for c in cen], axis=1)
    own = DK[np.arange(n), lab]
    sc = 1 + np.abs(own)
    if np.any(np.abs(own - dist) > tol * sc):
        i = int(np.argmax(np.abs(own - dist)))
        bad('distance-wrong', 'frame %d: reported %.9g, distance to its '
            'center %d is %.9g' % (i, dist[i], lab[i], own[i]))
    if np.any(DK.min(axis=1) < dist - tol * sc):
        bad('not-nearest', 'a reported center is strictly closer than the '
            'assigned one')
    # greedy replay from the supplied centers
    dmin = Dc.min(axis=1)
    radii = [float(dmin.max())]
    for t in range(n_init, K):
        ctx.count('greedy_steps_replayed')
        row = ref(X, cen[t])
        j = np.where(row <= tol)[0]
        c = int(j[0]) if len(j) else -1
        mx = dmin.max()
        if c < 0 or dmin[c] < mx - tol * (1 + mx):
            bad('not-farthest', 'center %d is not a farthest frame '
                '(%.9g vs max %.9g)' % (t, dmin[c] if c >= 0 else -1, mx))
            return
        dmin = np.minimum(dmin, row)
        radii.append(float(dmin.max()))
    # stop rule, both ways
    if not (K >= n_clusters or radii[-1] <= eff_c + tol * (1 + eff_c)):
        bad('stopped-early', 'K=%d < n_clusters=%d, radius %.6g > cutoff '
            '%.6g' % (K, n_clusters, radii[-1], eff_c))
    if K > n_init and (K - 1 >= n_clusters or radii[-2] <= eff_c - tol):
        bad('stopped-late', 'returned %d centers for n_clusters=%d (%d '
            'initial centers, %d own frames); radius before the last step '
            '%.6g, cutoff %.6g' % (K, n_clusters, n_init, owners, radii[-2],
                                   eff_c))
    # shortcut
    r2 = out[True]
    ctx.count('shortcut_pairs')
    same_c = len(r2.centers) == K and all(
        np.array_equal(np.asarray(a), np.asarray(b))
        for a, b in zip(r2.centers, res.centers))
    d2 = np.asarray(r2.distances, dtype=float)
    if not same_c or d2.shape != dist.shape or not np.allclose(
            d2, dist, rtol=1e-9, atol=1e-12):
        bad('shortcut-differs', 'with the triangle-inequality shortcut: same '
            'centers=%s, max |d - d_plain| = %.3g' % (
                same_c, np.abs(d2 - dist).max() if d2.shape == dist.shape
                else -1))
    if K - n_init >= 2:
        ctx.nontriv('foreign', X.tobytes(), init.tobytes(), n_clusters, cutoff)
    if idx % 300 == 0:
        ctx.sample(desc)


def xyz_distance(traj, frame):
    """Un-superposed Euclidean distance between conformations (a metric;
    float64 arithmetic, so repeated evaluations agree exactly)."""
    a = np.asarray(traj.xyz, dtype=np.float64)
    b = np.asarray(frame.xyz, dtype=np.float64)[0]
    return np.sqrt(((a - b) ** 2).sum(axis=(1, 2)))


def run_ftraj(ctx, rng, idx):
    """md.Trajectory data with initial centers that are not frames of it
    (structures from elsewhere), plain and with the triangle-inequality
    shortcut."""
    import mdtraj as md
    from vf import trajgen
    n = int(rng.integers(5, 40))
    use_rmsd = rng.random() < 0.35
    n_atoms = int(rng.integers(3, 6)) if use_rmsd else int(rng.integers(1, 4))
    top = trajgen.topology(n_atoms)
    geom = ['cloud', 'line'][int(rng.integers(0, 2))]
    xyz = trajgen.random_xyz(rng, n, n_atoms)
    if geom == 'line' and not use_rmsd:
        # low-dimensional arrangements make the pruning bound bite
        t = np.sort(rng.uniform(0, 10, size=n))
        xyz = np.zeros((n, n_atoms, 3), dtype=np.float32)
        xyz[:, 0, 0] = t
    frames = md.Trajectory(xyz.astype(np.float32), top)
    metric = md.rmsd if use_rmsd else xyz_distance
    ref = (lambda T, c: np.asarray(md.rmsd(T, c), dtype=float)) if use_rmsd \
        else xyz_distance
    tol = 2e-3 if use_rmsd else 1e-9
    n_init = int(rng.integers(1, 4))
    pick = rng.choice(n, size=n_init, replace=False)
    ix = frames.xyz[pick].astype(np.float64)
    spread = float(np.abs(frames.xyz).max()) or 1.0
    ix = ix + rng.normal(scale=0.15 * spread, size=ix.shape)
    init = md.Trajectory(ix.astype(np.float32), top)
    n_clusters = n_init + int(rng.integers(1, 6))
    desc = {'n': n, 'n_atoms': n_atoms, 'metric': 'rmsd' if use_rmsd else
            'xyz-euclidean', 'geom': geom, 'n_init': n_init,
            'n_clusters': n_clusters,
            'xyz': frames.xyz if frames.xyz.size <= 90 else 'elided',
            'init_xyz': init.xyz if init.xyz.size <= 40 else 'elided'}
    ctx.describe(desc)
    ctx.seen('criteria', 'ftraj/%s' % desc['metric'])
    out = {}
    for tri in (False, True):
        ctx.hist = []
        fr = md.Trajectory(frames.xyz.copy(), top)
        it = md.Trajectory(init.xyz.copy(), top)
        try:
            out[tri] = kcenters.kcenters(
                fr, metric, n_clusters=n_clusters, init_centers=it,
                use_triangle_inequality=tri)
        except StepBound as e:
            ctx.violation('kcenters.ftraj.does-not-stop', str(e))
            return
        except Exception as e:  # noqa
            ctx.violation('kcenters.ftraj.raised[tri=%s]' % tri, '%s: %s' % (
                type(e).__name__, str(e)[:200]))
            return
    ctx.count('stop_rules_checked')
    for tri in (False, True):
        res = out[tri]
        tag = 'shortcut' if tri else 'plain'
        cen = list(res.centers)
        K = len(cen)
        lab = np.asarray(res.assignments)
        dist = np.asarray(res.distances, dtype=float)
        if K != n_clusters and K < n:
            ctx.violation('kcenters.ftraj.cluster-count',
                          '[%s] %d centers for n_clusters=%d' % (
                              tag, K, n_clusters))
            continue
        if np.any(lab < 0) or np.any(lab >= K):
            ctx.violation('kcenters.ftraj.label-range', '[%s] labels %s' % (
                tag, np.unique(lab).tolist()))
            continue
        fr = md.Trajectory(frames.xyz.copy(), top)
        DK = np.stack([ref(fr, md.Trajectory(np.asarray(c.xyz).copy(), top))
                       for c in cen], axis=1)
        own = DK[np.arange(n), lab]
        sc = 1 + np.abs(own)
        if use_rmsd:
            # float32 RMSD: sqrt amplifies rounding near zero (a frame against
            # itself gives up to ~3e-3; the value also depends at the 1e-4 level on
            # whether mdtraj has already centred the arrays in place), so
            # compare squared values with a single-precision tolerance
            DK, own, dist = DK ** 2, own ** 2, dist ** 2
            tol, sc = 3e-4, 1 + own
        if np.any(np.abs(own - dist) > tol * sc):
            i = int(np.argmax(np.abs(own - dist)))
            ctx.violation('kcenters.ftraj.distance-wrong',
                          '[%s] frame %d: reported %.7g, distance to its '
                          'center %d is %.7g%s' % (
                              tag, i, dist[i], lab[i], own[i],
                              ' (squared)' if use_rmsd else ''))
        if np.any(DK.min(axis=1) < dist - tol * sc):
            i = int(np.argmax(dist - DK.min(axis=1)))
            ctx.violation('kcenters.ftraj.not-nearest',
                          '[%s] frame %d reported at %.7g from center %d but '
                          'center %d is at %.7g%s' % (
                              tag, i, dist[i], lab[i], int(DK[i].argmin()),
                              DK[i].min(), ' (squared)' if use_rmsd else ''))
    ctx.count('shortcut_pairs')
    a, b = out[False], out[True]
    if not use_rmsd:
        same = [int(i) for i in a.center_indices] == [
            int(i) for i in b.center_indices]
        da, db = np.asarray(a.distances), np.asarray(b.distances)
        if not same or not np.allclose(da, db, rtol=1e-9, atol=1e-12) or \
                not np.array_equal(a.assignments, b.assignments):
            # equally far frames may legitimately be picked in another order
            ties = len(np.unique(np.round(da, 9))) < len(da) - 1
            if ties and same:
                ctx.count('ftraj_ambiguous_ties')
            else:
                ctx.violation('kcenters.ftraj.shortcut-differs',
                              'same centers=%s, max |d - d_plain| = %.3g' % (
                                  same, np.abs(da - db).max()))
    if n_clusters - n_init >= 2:
        ctx.nontriv('ftraj', frames.xyz.tobytes(), init.xyz.tobytes(),
                    n_clusters)


def run_midpoint(ctx, rng, idx):
    """Data built around the pruning bound of the triangle-inequality
    shortcut: a frame sits within a few units in the last place of the
    midpoint between its center and the next center (collinear points), on
    either side of it.  Serial and one-rank MPI route, shortcut vs plain."""
    d = int(rng.integers(1, 4))
    D = float(rng.uniform(1, 100)) if rng.random() < 0.7 else \
        float(2.0 ** int(rng.integers(-3, 8)))
    u = rng.normal(size=d)
    u /= np.sqrt((u ** 2).sum())
    if d == 1 or rng.random() < 0.5:
        u = np.zeros(d)
        u[0] = 1.0                       # axis-aligned: distances are exact
    k_ulp = int(rng.integers(-6, 13))
    m = D / 2
    for _ in range(abs(k_ulp)):
        m = np.nextafter(m, np.inf if k_ulp > 0 else -np.inf)
    ts = [0.0, D, float(m)]
    # a few more frames well inside the first cluster and beyond the far one
    ts += [float(x) for x in rng.uniform(0.02 * D, 0.35 * D,
                                         size=int(rng.integers(0, 4)))]
    ts += [float(D + x) for x in rng.uniform(0.01 * D, 0.2 * D,
                                             size=int(rng.integers(0, 3)))]
    order = [0] + [int(i) + 1 for i in rng.permutation(len(ts) - 1)]
    X = np.outer(np.array(ts)[order], u)
    n = len(X)
    n_clusters = int(rng.integers(2, min(n, 5) + 1))
    mname = ['euclidean', 'manhattan'][int(rng.integers(0, 2))]
    ref = cc.ref_metric(mname)
    ctx.describe({'D': D, 'ulps_from_midpoint': k_ulp, 'dim': d,
                  'direction': u.tolist(), 'metric': mname,
                  'n_clusters': n_clusters, 'X': X})
    ctx.seen('criteria', 'midpoint/%+d' % max(-3, min(3, k_ulp)))
    for mode in (False, True):
        out = {}
        for tri in (False, True):
            ctx.hist = []
            try:
                r = kcenters.kcenters(X.copy(), mname, n_clusters=n_clusters,
                                      use_triangle_inequality=tri,
                                      mpi_mode=mode)
            except Exception as e:  # noqa
                ctx.violation('kcenters.midpoint.raised[mpi=%s]' % mode,
                              '%s: %s' % (type(e).__name__, str(e)[:200]))
                return
            ci = [int(c[1]) if isinstance(c, tuple) else int(c)
                  for c in r.center_indices]
            out[tri] = (ci, np.asarray(r.assignments),
                        np.asarray(r.distances, dtype=float))
        ctx.count('shortcut_pairs')
        ctx.count('stop_rules_checked')
        tag = 'mpi' if mode else 'serial'
        for tri in (False, True):
            ci, lab, dist = out[tri]
            DK = np.stack([ref(X, X[c]) for c in ci], axis=1)
            own = DK[np.arange(n), lab]
            # exact arithmetic in the axis-aligned case, 1e-12 otherwise
            tol = 1e-12 * D
            if np.any(np.abs(own - dist) > tol) or np.any(
                    DK.min(axis=1) < dist - tol):
                i = int(np.argmax(dist - DK.min(axis=1)))
                ctx.violation(
                    'kcenters.midpoint.not-nearest[%s]' % tag,
                    '[%s, shortcut=%s] frame %d reported at %.17g from '
                    'center %d, nearest center is at %.17g (frame %d ulps '
                    'from the midpoint)' % (tag, tri, i, dist[i], lab[i],
                                            DK[i].min(), k_ulp))
        a, b = out[False], out[True]
        # axis-aligned data: every distance is exact, so is the comparison;
        # along a general direction a pruned frame may be an ulp closer to
        # the new center after rounding (a tie either way)
        exact_ = bool(np.count_nonzero(u) == 1)
        same_d = np.array_equal(a[2], b[2]) if exact_ else (
            a[2].shape == b[2].shape and
            np.abs(a[2] - b[2]).max() <= 1e-12 * D)
        if a[0] != b[0] or not same_d:
            ctx.violation('kcenters.midpoint.shortcut-differs[%s]' % tag,
                          'centers %s vs %s, max |d - d_plain| = %.3g (frame '
                          '%d ulps from the midpoint)' % (
                              a[0], b[0], np.abs(a[2] - b[2]).max()
                              if a[2].shape == b[2].shape else -1, k_ulp))
    if abs(k_ulp) <= 4:
        ctx.nontriv('midpoint', X.tobytes(), n_clusters, mname)


def run_swarm(ctx, rng, idx):
    """The process is one rank of a multi-rank MPI world, but the caller
    clusters its *own* data serially (mpi_mode=False, in any falsy spelling,
    function and estimator form): the result is the serial k-centers of that
    rank's data and no collective is entered."""
    from mpi4py import MPI
    size = int(rng.integers(2, 5))
    mname = ['euclidean', 'manhattan'][int(rng.integers(0, 2))]
    data, exp, ks, cuts = [], [], [], []
    for r in range(size):
        X, _ = cc.gen_data(rng, nmax=40, nmin=4, dtype=np.float64)
        k = int(rng.integers(1, min(len(X), 6) + 1))
        ref = cc.ref_metric(mname)
        cut = None if rng.random() < 0.6 else float(
            ref(X, X[0]).max() * rng.uniform(0.2, 0.7))
        data.append(X)
        ks.append(k)
        cuts.append(cut)
        ctx.hist = []
        exp.append(kcenters.kcenters(X, mname, n_clusters=k, dist_cutoff=cut))
    flag = [False, np.False_, 0][int(rng.integers(0, 3))]
    ctx.describe({'world': size, 'metric': mname, 'mpi_mode': repr(flag),
                  'n': [len(x) for x in data], 'k': ks, 'cutoffs': cuts})

    def rank_fn(r):
        X = data[r]
        out = {}
        res = kcenters.kcenters(X.copy(), mname, n_clusters=ks[r],
                                dist_cutoff=cuts[r], mpi_mode=flag)
        out['fn'] = (list(res.center_indices), np.asarray(res.assignments),
                     np.asarray(res.distances))
        if cuts[r] is None:
            e = kcenters.KCenters(mname, n_clusters=ks[r], mpi_mode=flag)
        else:
            e = kcenters.KCenters(mname, n_clusters=ks[r],
                                  cluster_radius=cuts[r], mpi_mode=flag)
        e.fit(X.copy())
        out['est'] = (list(e.center_indices_), np.asarray(e.labels_),
                      np.asarray(e.distances_))
        return out
    ctx.hist = []
    ctx.no_step_bound = True
    try:
        world, results, errors = MPI.run_world(size, rank_fn, seed=int(
            rng.integers(0, 2 ** 31)))
    finally:
        ctx.no_step_bound = False
    ctx.count('stop_rules_checked')
    ctx.count('swarm_worlds')
    if any(e is not None for e in errors):
        e = [x for x in errors if x is not None][0]
        ctx.violation('kcenters.swarm.raised', '%s' % (str(e)[:300],))
        return
    ncoll = len([ev for ev in getattr(world, 'log', [])
                 if ev and ev[0] not in ('start', 'end')]) \
        if hasattr(world, 'log') else 0
    for r, out in enumerate(results):
        e_ci = [int(i) for i in exp[r].center_indices]
        for form in ('fn', 'est'):
            ci, lab, dist = out[form]
            if any(isinstance(c, tuple) for c in ci) or \
                    [int(c) for c in ci] != e_ci or \
                    not np.array_equal(lab, exp[r].assignments) or \
                    not np.allclose(dist, exp[r].distances, rtol=1e-12,
                                    atol=0):
                ctx.violation(
                    'kcenters.swarm.not-serial[%s]' % form,
                    'rank %d of %d with mpi_mode=%r: centers %s, serial '
                    'k-centers of the same data gives %s' % (
                        r, size, flag, list(ci)[:6], e_ci[:6]))
                return
    ctx.nontriv('swarm', size, tuple(len(x) for x in data), repr(flag))
