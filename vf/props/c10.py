"""C10 - nearest-center assignment and per-trajectory bookkeeping are exact."""
import os
import shutil
import tempfile

import numpy as np

from vf import clustercommon as cc

RULE = ('cases = seeded data sets x center lists (subsets of the data, foreign '
        'points, duplicates, more centers than frames) x metric; length '
        'vectors (equal, unequal, with 1s) with flat center indices placed on '
        'first/last frames of trajectories; estimator predict on new data; '
        '"traj" cases assign md.Trajectory frames to md.Trajectory / list '
        'centers with the RMSD metric (more and fewer centers than frames); '
        '"batch" cases run reassign()/batch_reassign on generated trajectory '
        'files in several batches; non-trivial = assignment with >=3 centers '
        'of which >=2 own frames and a partition with unequal lengths whose '
        'centers touch a trajectory boundary; distinct by (data hash, centers, '
        'lengths)')
REQUIRED = ['assign_calls', 'partition_calls', 'predict_calls']
ASSUMPTIONS = ['brute-force float64 distance matrix is the oracle; ties '
               '(equal within tolerance) accept any minimiser',
               'batch_reassign compared with md.rmsd per center on squared '
               'rmsd, tolerance 2e-5 nm^2 (float32 coordinates)']


def shards(tier):
    if tier == 'quick':
        return [dict(kind='assign', n=3000, parts=12, timeout=900),
                dict(kind='traj', n=240, parts=3, timeout=900,
                     env={'OMP_NUM_THREADS': 1}),
                dict(kind='batch', n=32, parts=4, timeout=900,
                     env={'OMP_NUM_THREADS': 1})]
    return [dict(kind='assign', n=90000, parts=11, timeout=3400),
            dict(kind='traj', n=6000, parts=3, timeout=3400,
                 env={'OMP_NUM_THREADS': 1}),
            dict(kind='batch', n=400, parts=4, timeout=3400,
                 env={'OMP_NUM_THREADS': 1})]


def setup(ctx):
    global util, ra, kcenters, kmedoids
    from enspara.cluster import util as _u, kcenters as _kc, kmedoids as _km
    from enspara.ra import ra as _ra
    from vf import monitor
    util, ra, kcenters, kmedoids = _u, _ra, _kc, _km
    ctx.h_assign = monitor.attach(util, 'assign_to_nearest_center')
    ctx.h_find = monitor.attach(util, 'find_cluster_centers')
    ctx.h_part = monitor.attach(util.ClusterResult, 'partition')
    ctx.h_pi = monitor.attach(ra, 'partition_indices')
    ctx.h_pl = monitor.attach(ra, 'partition_list')
    ctx.h_pred = monitor.attach(util.MolecularClusterMixin, 'predict')


def teardown(ctx):
    ctx.count('assign_calls', ctx.h_assign.calls)
    ctx.count('find_centers_calls', ctx.h_find.calls)
    ctx.count('partition_calls', ctx.h_part.calls)
    ctx.count('partition_indices_calls', ctx.h_pi.calls)
    ctx.count('partition_list_calls', ctx.h_pl.calls)
    ctx.count('predict_calls', ctx.h_pred.calls)


def check_assign(ctx, X, centers, mname, assign, dist, tag):
    ref = cc.ref_metric(mname)
    tol = cc.tol_for(X)
    D = np.stack([ref(X, np.asarray(c)) for c in centers], axis=1)
    mn = D.min(axis=1)
    scale = 1 + np.abs(mn)
    assign = np.asarray(assign)
    dist = np.asarray(dist, dtype=float)
    if assign.shape != (len(X),) or dist.shape != (len(X),):
        ctx.violation('assign.%s.shape' % tag, 'shapes %s %s' % (
            assign.shape, dist.shape))
        return False
    if np.any(assign < 0) or np.any(assign >= len(centers)):
        ctx.violation('assign.%s.label-range' % tag, 'labels %s' %
                      np.unique(assign).tolist())
        return False
    w = np.abs(dist - mn) > tol * scale
    if np.any(w):
        i = int(np.where(w)[0][0])
        ctx.violation('assign.%s.distance-not-minimal' % tag,
                      'frame %d: reported %.12g, minimum over centers %.12g'
                      % (i, dist[i], mn[i]))
        return False
    own = D[np.arange(len(X)), assign]
    w = own > mn + tol * scale
    if np.any(w):
        i = int(np.where(w)[0][0])
        ctx.violation('assign.%s.label-not-nearest' % tag,
                      'frame %d labelled %d at %.12g but center %d is at '
                      '%.12g' % (i, assign[i], own[i], int(D[i].argmin()),
                                 mn[i]))
        return False
    return True


def gen_lengths(rng, n):
    mode = int(rng.integers(0, 4))
    if mode == 0:
        # equal lengths
        divs = [d for d in range(1, n + 1) if n % d == 0]
        L = divs[int(rng.integers(0, len(divs)))]
        return [L] * (n // L)
    k = int(rng.integers(1, min(n, 7) + 1))
    cuts = np.sort(rng.choice(np.arange(1, n), size=k - 1, replace=False)) \
        if k > 1 else np.array([], dtype=int)
    lens = [int(x) for x in np.diff(np.concatenate([[0], cuts, [n]]))]
    if mode == 2 and n >= 3:
        # force 1-frame trajectories at both ends
        lens = [1] + [n - 2] + [1]
    return lens


def run_case(ctx, kind, rng, idx):
    if kind == 'batch':
        return run_batch(ctx, rng, idx)
    if kind == 'traj':
        return run_traj(ctx, rng, idx)
    from vf.monitor import Frozen
    X, info = cc.gen_data(rng, nmax=50)
    n, d = X.shape
    mname = ['euclidean', 'manhattan', 'chebyshev'][int(rng.integers(0, 3))]
    m = cc.metric_arg(mname, rng)
    # ---- center list ----------------------------------------------------
    ck = ['subset', 'foreign', 'dups', 'many'][int(rng.integers(0, 4))]
    if ck == 'subset':
        k = int(rng.integers(1, n + 1))
        centers = [X[i].copy() for i in rng.choice(n, size=k, replace=False)]
    elif ck == 'foreign':
        k = int(rng.integers(1, 8))
        centers = [(X[int(rng.integers(0, n))] +
                    rng.integers(1, 4, size=d)).astype(X.dtype)
                   for _ in range(k)]
    elif ck == 'dups':
        k = int(rng.integers(2, 8))
        base = [X[int(rng.integers(0, n))].copy() for _ in range(k)]
        centers = base + [base[0].copy(), base[-1].copy()]
    else:
        k = n + int(rng.integers(1, 6))
        centers = [X[int(rng.integers(0, n))].copy() for _ in range(k)]
    as_array = rng.random() < 0.5
    cen_arg = np.array(centers) if as_array else centers
    desc = dict(info, metric=mname, centers_kind=ck, n_centers=len(centers),
                X=X if X.size <= 80 else 'elided')
    ctx.describe(desc)
    fz = Frozen(X, cen_arg)
    try:
        a, dd = util.assign_to_nearest_center(
            X, cen_arg, util._get_distance_method(m))
    except Exception as e:  # noqa
        ctx.crash('assign.raised', e)
        return
    if fz.changed():
        ctx.violation('assign.mutates-input', '%s modified' % fz.changed())
    ok = check_assign(ctx, X, centers, mname, a, dd, 'direct')
    # ---- per-label center finder ----------------------------------------
    tol = cc.tol_for(X)
    try:
        fc = util.find_cluster_centers(a, dd)
        labs = np.unique(a)
        if len(fc) != len(labs):
            ctx.violation('findcenters.count', '%d labels present, %d centers '
                          'returned' % (len(labs), len(fc)))
        else:
            for lab, ci in zip(labs, fc):
                mem = np.where(a == lab)[0]
                if ci not in mem:
                    ctx.violation('findcenters.not-a-member',
                                  'label %d: frame %d has label %d' % (
                                      lab, ci, a[ci]))
                    break
                if dd[ci] > dd[mem].min() + tol * (1 + dd[mem].min()):
                    ctx.violation('findcenters.not-minimal',
                                  'label %d: frame %d at %.9g, member at %.9g '
                                  'exists' % (lab, ci, dd[ci], dd[mem].min()))
                    break
    except Exception as e:  # noqa
        ctx.crash('findcenters.raised', e)
    # ---- partition bookkeeping (unique ids) -----------------------------
    lens = gen_lengths(rng, n)
    starts = np.cumsum([0] + lens[:-1])
    ends = np.cumsum(lens) - 1
    # centers on trajectory boundaries + random ones
    cand = list(starts) + list(ends)
    kk = int(rng.integers(1, 8))
    flat_ci = [int(cand[int(rng.integers(0, len(cand)))]) if rng.random() < 0.7
               else int(rng.integers(0, n)) for _ in range(kk)]
    uid_a = (np.arange(n) * 7 + 3).astype(int)
    uid_d = np.arange(n) + 0.25
    res = util.ClusterResult(center_indices=list(flat_ci), distances=uid_d,
                             assignments=uid_a, centers=centers)
    lens_arg = lens if rng.random() < 0.5 else np.array(lens)
    fz = Frozen(uid_a, uid_d, lens_arg)
    desc['lengths'] = lens
    desc['flat_center_indices'] = flat_ci
    try:
        pr = res.partition(lens_arg)
    except Exception as e:  # noqa
        ctx.crash('partition.raised', e)
        pr = None
    if pr is not None:
        if fz.changed():
            ctx.violation('partition.mutates-input', '%s' % fz.changed())
        square = len(set(lens)) == 1
        for nm, part, flat in (('assignments', pr.assignments, uid_a),
                               ('distances', pr.distances, uid_d)):
            is_ra = type(part).__name__ == 'RaggedArray'
            if square and not isinstance(part, np.ndarray):
                ctx.violation('partition.container', '%s: equal lengths but '
                              'result is %s' % (nm, type(part).__name__))
            if not square and not is_ra:
                ctx.violation('partition.container', '%s: unequal lengths but '
                              'result is %s' % (nm, type(part).__name__))
            pieces = [np.asarray(part[i]) for i in range(len(part))]
            if [len(p) for p in pieces] != lens:
                ctx.violation('partition.piece-lengths', '%s: %s vs %s' % (
                    nm, [len(p) for p in pieces], lens))
                continue
            cat = np.concatenate(pieces)
            if not np.array_equal(cat.astype(float), flat.astype(float)):
                ctx.violation('partition.values', '%s: concatenation of the '
                              'pieces differs from the flat array' % nm)
            if cat.dtype != flat.dtype:
                ctx.violation('partition.dtype', '%s: dtype %s -> %s' % (
                    nm, flat.dtype, cat.dtype))
        pci = pr.center_indices
        if len(pci) != len(flat_ci):
            ctx.violation('partition.center-count', '%d -> %d' % (
                len(flat_ci), len(pci)))
        else:
            for g, (t, f) in zip(flat_ci, pci):
                if not (0 <= t < len(lens) and 0 <= f < lens[t]) or \
                        starts[t] + f != g:
                    ctx.violation('partition.center-index',
                                  'flat index %d -> (%d, %d) with lengths %s'
                                  % (g, t, f, lens))
                    break
        # stand-alone helpers
        try:
            pi = ra.partition_indices(list(flat_ci), lens_arg)
            if [tuple(int(x) for x in p) for p in pi] != \
                    [(int(np.searchsorted(starts, g, side='right') - 1),
                      int(g - starts[np.searchsorted(starts, g, side='right')
                                     - 1])) for g in flat_ci]:
                ctx.violation('partition_indices.wrong', '%s -> %s' % (
                    flat_ci, pi))
            pl = ra.partition_list(uid_a, lens_arg)
            if [len(p) for p in pl] != lens or not np.array_equal(
                    np.concatenate(pl), uid_a):
                ctx.violation('partition_list.wrong', 'lengths %s' % lens)
        except Exception as e:  # noqa
            ctx.crash('partition_helpers.raised', e)
    # ---- a metric with a cut-off: +inf beyond it.  A frame out of reach of
    # every center still gets a valid label (all centers are equally near)
    # and distance inf; the heap is dirtied first so that memory a routine
    # forgets to initialise does not happen to be zero
    if idx % 8 == 5:
        Xc = np.asarray(X, dtype=np.float64) + 1e3 * rng.integers(
            0, 3, size=(n, 1))
        kc_ = min(int(rng.integers(1, 4)), n)
        cen_c = [Xc[i].copy() for i in rng.choice(n, kc_, replace=False)]
        cutv = float(np.abs(Xc - Xc.mean(axis=0)).max()) * 0.05 + 1.0

        def cut_metric(A, y):
            d_ = np.sqrt(((np.asarray(A, dtype=float) - np.asarray(
                y, dtype=float)) ** 2).sum(axis=1))
            return np.where(d_ > cutv, np.inf, d_)
        for _ in range(3):
            junk = np.full(n, -7777, dtype=np.int64)
            del junk
        try:
            a_c, d_c = util.assign_to_nearest_center(Xc, cen_c, cut_metric)
            a_c, d_c = np.asarray(a_c), np.asarray(d_c, dtype=float)
            Dc_ = np.stack([cut_metric(Xc, c) for c in cen_c], axis=1)
            ctx.count('cutoff_metric_assignments')
            if np.any(a_c < 0) or np.any(a_c >= kc_):
                ctx.violation('assign.cutoff-metric.label-range',
                              'labels %s for %d centers (frames out of reach '
                              'of every center: %d)' % (
                                  np.unique(a_c).tolist()[:6], kc_,
                                  int(np.isinf(Dc_).all(axis=1).sum())))
            elif not np.array_equal(d_c, Dc_.min(axis=1)) or np.any(
                    Dc_[np.arange(n), a_c] != Dc_.min(axis=1)):
                ctx.violation('assign.cutoff-metric.not-nearest',
                              'labels / distances are not the minimum over '
                              'the centers under a metric with a cut-off')
        except Exception as e:  # noqa
            ctx.crash('assign.cutoff-metric.raised', e)
    # ---- predict ---------------------------------------------------------
    if idx % 3 == 0:
        Y, _ = cc.gen_data(rng, nmax=30, dtype=X.dtype.type)
        if Y.shape[1] != d:
            Y = np.ascontiguousarray(
                np.resize(Y, (len(Y), d)).astype(X.dtype))
        kfit = int(rng.integers(1, min(n, 8) + 1))
        try:
            w = int(rng.integers(0, 3))
            if w == 0:
                est = kcenters.KCenters(m, n_clusters=kfit).fit(X)
            elif w == 1:
                est = kmedoids.KMedoids(m, n_clusters=kfit, n_iters=2).fit(X)
            else:
                from enspara.cluster import hybrid as _hy
                est = _hy.KHybrid(m, n_clusters=kfit, kmedoids_updates=2,
                                  mpi_mode=False).fit(X)
            fz = Frozen(Y)
            pred = est.predict(Y)
            if fz.changed():
                ctx.violation('predict.mutates-input', 'Y modified')
            check_assign(ctx, Y, est.centers_, mname, pred.assignments,
                         pred.distances, 'predict')
            a2, d2 = util.assign_to_nearest_center(Y, est.centers_, est.metric)
            if not np.array_equal(a2, pred.assignments) or not np.array_equal(
                    d2, pred.distances):
                ctx.violation('predict.differs-from-assign',
                              'predict != assign_to_nearest_center with the '
                              'fitted centers')
        except Exception as e:  # noqa
            ctx.crash('predict.raised', e)
    owners = len(np.unique(a)) if ok else 0
    boundary = any(g in set(starts) | set(ends) for g in flat_ci)
    if ok and len(centers) >= 3 and owners >= 2 and len(set(lens)) > 1 and \
            boundary:
        ctx.nontriv(X.tobytes(), ck, len(centers), lens, flat_ci)
    if idx % 700 == 0:
        ctx.sample(desc)


def run_batch(ctx, rng, idx):
    """reassign() on generated trajectory files, several batches."""
    import mdtraj as md
    import psutil
    from vf import trajgen
    tmp = tempfile.mkdtemp(prefix='vf-c10-', dir=os.environ.get('VF_RUNDIR'))
    try:
        n_atoms = int(rng.integers(4, 9))
        nfiles = int(rng.integers(2, 10))
        lens = [int(x) for x in rng.integers(1, 25, size=nfiles)]
        if rng.random() < 0.3:
            lens = [lens[0]] * nfiles
        top = trajgen.write_top(tmp, n_atoms)
        files = []
        xyzs = []
        for i, L in enumerate(lens):
            xyz = trajgen.random_xyz(rng, L, n_atoms)
            xyzs.append(xyz)
            files.append(trajgen.write(tmp, 't%02d' % i, xyz, fmt='h5'))
        ncen = int(rng.integers(1, 6))
        allx = np.concatenate(xyzs)
        cidx = rng.choice(len(allx), size=min(ncen, len(allx)), replace=False)
        centers = md.Trajectory(allx[cidx].copy(), trajgen.topology(n_atoms))
        # memory fraction such that a batch holds ~max(lens)..sum(lens) frames
        per_frame = n_atoms * 3 * 4
        # batch capacity between "one long trajectory" and "everything": small
        # capacities give many batches with free room left in the early ones
        if rng.random() < 0.6:
            want = int(rng.integers(max(lens) + 1, 2 * max(lens) + 2))
        else:
            want = int(rng.integers(max(lens) + 1, sum(lens) + 2))
        frac = (want + 0.5) * per_frame / psutil.virtual_memory().total
        desc = {'lengths': lens, 'n_atoms': n_atoms, 'n_centers': len(cidx),
                'batch_frames': want}
        ctx.describe(desc)
        batches = util.compute_batches(lens, want)
        ctx.seen('n_batches', len(batches))
        try:
            a, dd = util.reassign([top], [files], ['all'], centers,
                                  frac_mem=frac)
        except Exception as e:  # noqa
            ctx.crash('batch_reassign.raised', e)
            return
        ctx.count('batch_reassign_runs')
        square = len(set(lens)) == 1
        if square != isinstance(a, np.ndarray):
            ctx.violation('batch_reassign.container', 'lengths %s -> %s' % (
                lens, type(a).__name__))
        pa = [np.asarray(a[i]) for i in range(len(a))]
        pd = [np.asarray(dd[i], dtype=float) for i in range(len(dd))]
        if [len(x) for x in pa] != lens or [len(x) for x in pd] != lens:
            ctx.violation('batch_reassign.lengths', '%s vs %s' % (
                [len(x) for x in pa], lens))
            return
        ref_t = md.Trajectory(allx.copy(), trajgen.topology(n_atoms))
        D = np.stack([md.rmsd(ref_t, centers, frame=i)
                      for i in range(len(cidx))], axis=1).astype(float)
        mn = D.min(axis=1)
        fa = np.concatenate(pa)
        fd = np.concatenate(pd)
        # rmsd = sqrt(E) with E in float32: compare squares (near zero the
        # square root amplifies float32 noise to ~1e-3)
        if np.any(np.abs(fd ** 2 - mn ** 2) > 2e-5 * (1 + mn ** 2)):
            i = int(np.argmax(np.abs(fd ** 2 - mn ** 2)))
            ctx.violation('batch_reassign.distance-not-minimal',
                          'frame %d: reported %.6g, min rmsd %.6g' % (
                              i, fd[i], mn[i]))
        own = D[np.arange(len(fa)), fa]
        if np.any(own ** 2 > mn ** 2 + 2e-5 * (1 + mn ** 2)):
            ctx.violation('batch_reassign.label-not-nearest',
                          'some frame is labelled with a farther center')
        if len(batches) >= 2 and not square:
            ctx.nontriv('batch', lens, n_atoms, len(cidx), want)
        ctx.sample(desc)
    finally:
        shutil.rmtree(tmp, ignore_errors=True)


def run_traj(ctx, rng, idx):
    """Molecular trajectories with the RMSD metric: centers given as an
    md.Trajectory (more or fewer centers than frames - the two code paths of
    assign_to_nearest_center) or as a list of one-frame trajectories."""
    import mdtraj as md
    from vf import trajgen
    n_atoms = int(rng.integers(4, 9))
    n_frames = int(rng.integers(1, 13))
    top = trajgen.topology(n_atoms)
    frames = md.Trajectory(trajgen.random_xyz(rng, n_frames, n_atoms), top)
    k = int(rng.integers(1, 16))
    related = rng.random() < 0.3
    if related:
        cx = frames.xyz[rng.integers(0, n_frames, size=k)].copy()
    else:
        cx = trajgen.random_xyz(rng, k, n_atoms)
    as_traj = rng.random() < 0.6
    centers_t = md.Trajectory(cx, top)
    cen_arg = centers_t if as_traj else [centers_t[i] for i in range(k)]
    desc = {'frames': n_frames, 'centers': k, 'atoms': n_atoms,
            'centers_as': 'Trajectory' if as_traj else 'list',
            'centers_are_frames': related}
    ctx.describe(desc)
    ctx.seen('traj_paths', '%s/%s' % (
        'Trajectory' if as_traj else 'list',
        'more-centers' if k > n_frames else 'fewer-or-equal'))
    fx, fc = frames.xyz.copy(), cx.copy()
    try:
        a, dd = util.assign_to_nearest_center(frames, cen_arg, md.rmsd)
    except Exception as e:  # noqa
        ctx.crash('assign.traj.raised', e)
        return
    # (md.rmsd itself centres both trajectories in place - mdtraj behaviour,
    # not enspara's - so coordinates are not compared before/after here)
    D = np.stack([md.rmsd(frames, centers_t, frame=i) for i in range(k)],
                 axis=1).astype(float)
    mn = D.min(axis=1)
    a = np.asarray(a)
    dd = np.asarray(dd, dtype=float)
    if a.shape != (n_frames,) or np.any(a < 0) or np.any(a >= k):
        ctx.violation('assign.traj.labels', 'labels %s for %d centers' % (
            a.tolist(), k))
        return
    if np.any(np.abs(dd ** 2 - mn ** 2) > 2e-5 * (1 + mn ** 2)):
        i = int(np.argmax(np.abs(dd ** 2 - mn ** 2)))
        ctx.violation('assign.traj.distance-not-minimal[%s]' % (
            'more-centers' if k > n_frames else 'fewer'),
            'frame %d: reported %.6g, minimal rmsd over the centers %.6g '
            '(centers given as %s)' % (i, dd[i], mn[i], desc['centers_as']))
    elif np.any(D[np.arange(n_frames), a] ** 2 > mn ** 2 +
                2e-5 * (1 + mn ** 2)):
        ctx.violation('assign.traj.label-not-nearest[%s]' % (
            'more-centers' if k > n_frames else 'fewer'),
            'a frame is labelled with a farther center')
    elif k >= 2 and not related:
        ctx.nontriv('traj', frames.xyz.tobytes(), cx.tobytes(), as_traj)
    ctx.count('traj_assignments_checked')
    # ---- an estimator with a history: fit, predict, fit on OTHER data with
    # the same number of clusters, predict again (few frames each time, so
    # both code paths of the assignment are taken).  Every predict answers
    # for the centers of the latest fit.
    if idx % 3 == 0:
        from enspara.cluster import kcenters as _kc, hybrid as _hy
        kk = int(rng.integers(2, 7))
        est = _kc.KCenters(md.rmsd, n_clusters=kk) if rng.random() < 0.5 \
            else _hy.KHybrid(md.rmsd, n_clusters=kk, kmedoids_updates=1,
                             mpi_mode=False, random_state=0)
        try:
            for round_ in range(2):
                data = md.Trajectory(trajgen.random_xyz(
                    rng, int(rng.integers(kk + 1, 20)), n_atoms), top)
                est.fit(data)
                for _ in range(2):
                    nq = int(rng.integers(1, 2 * kk))
                    q = md.Trajectory(trajgen.random_xyz(rng, nq, n_atoms),
                                      top)
                    pred = est.predict(q)
                    cen = est.centers_
                    cen_t = cen if hasattr(cen, 'xyz') else md.join(list(cen))
                    Dq = np.stack([md.rmsd(q, cen_t, frame=i)
                                   for i in range(len(cen_t))],
                                  axis=1).astype(float)
                    mq = Dq.min(axis=1)
                    pa = np.asarray(pred.assignments)
                    pd_ = np.asarray(pred.distances, dtype=float)
                    ctx.count('predict_after_refit_checked')
                    if np.any(np.abs(pd_ ** 2 - mq ** 2) > 2e-5 * (
                            1 + mq ** 2)) or np.any(
                            Dq[np.arange(nq), pa] ** 2 > mq ** 2 + 2e-5 * (
                                1 + mq ** 2)):
                        ctx.violation(
                            'predict.traj.not-nearest[%s]' % (
                                'after-refit' if round_ else 'first-fit'),
                            'predict() on %d frames with %d centers: reported '
                            'distances %s, minimal rmsd to the current '
                            'centers %s' % (nq, len(cen_t),
                                            np.round(pd_, 4).tolist()[:5],
                                            np.round(mq, 4).tolist()[:5]))
                        raise StopIteration
        except StopIteration:
            pass
        except Exception as e:  # noqa
            ctx.crash('predict.traj.raised', e)
