"""C12 - the reversible estimator is a true maximum-likelihood fixed point."""
import warnings

import numpy as np

from vf import msmcommon as mc

RULE = ('cases = seeded strongly connected count matrices (n 2-12, integer or '
        'real, asymmetry ratios up to 1e4, zeros, self-counts), each run '
        'through builders.mle (dense + one sparse container), _prinz_mle_py '
        'and the compiled _mle_prinz_dense, plus a forced non-convergence run '
        '(max_iter 1-3); plain and ASan/UBSan builds; non-trivial = n>=3 '
        'matrix that is not symmetric, has a zero off-diagonal entry and for '
        'which >=20 reversible competitors were scored; distinct by matrix '
        'hash')
REQUIRED = ['mle_calls', 'py_calls', 'compiled_calls', 'competitors_scored']
ASSUMPTIONS = [
    'likelihood dominance is tested against sampled reversible competitors on '
    'the same support (symmetric multiplicative perturbations of the returned '
    'model, mixtures with the transpose estimate), not against all of them',
    'tolerance: L(T) >= L(T\') - 1e-7*(1+|L|); Prinz residual <= 1e-5 relative',
]


def shards(tier):
    if tier == 'quick':
        return [dict(kind='mle', n=192, parts=12, timeout=900, budget_s=90),
                dict(kind='mle', n=48, parts=4, timeout=900, variant='asan',
                     start=100000)]
    # the pure-Python estimator needs up to minutes on slowly converging
    # inputs: the thorough tier is bounded by a time budget per worker (cases
    # not reached are reported as cases_skipped_budget in the evidence)
    return [dict(kind='mle', n=12000, parts=12, timeout=3400, budget_s=780),
            dict(kind='mle', n=2400, parts=4, timeout=3400, variant='asan',
                 start=100000, budget_s=780)]


def setup(ctx):
    global builders, exc_mod
    from enspara.msm import builders as _b
    from enspara import exception as _e
    from vf import monitor
    builders, exc_mod = _b, _e
    ctx.h_mle = monitor.attach(builders, 'mle')
    ctx.h_py = monitor.attach(builders, '_prinz_mle_py')
    ctx.h_c = monitor.attach(builders, '_mle_prinz_dense')


def teardown(ctx):
    ctx.count('mle_calls', ctx.h_mle.calls)
    ctx.count('py_calls', ctx.h_py.calls)
    ctx.count('compiled_calls', ctx.h_c.calls)


def loglik(C, T):
    m = C > 0
    if np.any(T[m] <= 0):
        return -np.inf
    return float((C[m] * np.log(T[m])).sum())


def check_model(ctx, C, T, pi, tag, rng, res_tol=5e-5):
    C = np.asarray(C, dtype=float)
    n = len(C)
    T = np.asarray(T, dtype=float)
    pi = np.asarray(pi, dtype=float)
    if T.shape != (n, n) or pi.shape != (n,) or not np.all(np.isfinite(T)) \
            or not np.all(np.isfinite(pi)):
        ctx.violation('mle.%s.malformed' % tag, 'T %s pi %s finite=%s' % (
            T.shape, pi.shape, bool(np.all(np.isfinite(T)))))
        return False
    ok = True
    if np.abs(T.sum(axis=1) - 1).max() > 1e-9 or abs(pi.sum() - 1) > 1e-9:
        ctx.violation('mle.%s.not-stochastic' % tag, 'row sums / pi sum off')
        ok = False
    X = pi[:, None] * T
    db = np.abs(X - X.T).max()
    if db > 1e-7:
        ctx.violation('mle.%s.not-reversible' % tag,
                      'max |pi_i T_ij - pi_j T_ji| = %.3g' % db)
        ok = False
    # Prinz self-consistency: x_ij (c_i/x_i + c_j/x_j) = c_ij + c_ji
    X = (X + X.T) / 2
    xs, cs = X.sum(axis=1), C.sum(axis=1)
    lhs = X * (cs / xs)[:, None] + X * (cs / xs)[None, :]
    rhs = C + C.T
    res = np.abs(lhs - rhs).max() / rhs.max()
    ctx.count('fixed_point_residuals')
    if res > res_tol:
        ctx.violation('mle.%s.not-a-fixed-point' % tag,
                      'Prinz residual %.3g (relative)' % res)
        ok = False
    # likelihood dominance
    L = loglik(C, T)
    S0 = C + C.T
    Tt = S0 / S0.sum(axis=1)[:, None]
    comps = [('transpose', Tt)]
    sup = S0 > 0
    for k in range(20):
        eps = [1e-4, 1e-3, 1e-2, 0.1, 0.5][k % 5]
        G = rng.normal(size=(n, n))
        G = (G + G.T) / 2
        Xp = np.where(sup, X * np.exp(eps * G), 0)
        if k % 4 == 3:
            lam = rng.uniform(0.01, 0.5)
            Xp = (1 - lam) * X / X.sum() + lam * S0 / S0.sum()
        comps.append(('perturb%.0e' % eps, Xp / Xp.sum(axis=1)[:, None]))
    for nm, Tc in comps:
        Lc = loglik(C, Tc)
        ctx.count('competitors_scored')
        if (np.isfinite(Lc) and not np.isfinite(L)) or (
                np.isfinite(L) and Lc > L + 1e-7 * (1 + abs(L))):
            ctx.violation('mle.%s.not-maximum-likelihood' % tag,
                          'competitor %s has log-likelihood %.12g > %.12g of '
                          'the returned model' % (nm, Lc, L))
            ok = False
            break
    return ok


def run_case(ctx, kind, rng, idx):
    from vf.monitor import Frozen
    asym = [1.0, 1.0, 10.0, 1e2, 1e4][int(rng.integers(0, 5))]
    san = ctx.spec.get('variant') == 'asan'
    quick = ctx.spec.get('tier') == 'quick'
    C = mc.strongly_connected_counts(
        rng, nmin=2, nmax=6 if san else (8 if quick else 12), asym=asym,
        allow_periodic=not quick)
    wide_tree = False
    if rng.random() < 0.08:
        # tree-shaped transition graph (a chain of states, a star): leaf
        # states have one neighbour and no self-counts, so their row sum is
        # exactly their single off-diagonal entry
        n_t = int(rng.integers(3, 8))
        C = np.zeros((n_t, n_t))
        wide_ = rng.random() < 0.5
        wide_tree = wide_
        for b in range(1, n_t):
            a = int(rng.integers(0, b)) if rng.random() < 0.5 else b - 1
            if wide_:
                # up to ten decades between neighbouring entries (a state
                # left 40 times next to one carrying 3e8 counts)
                C[a, b] = np.floor(10 ** rng.uniform(0, 10))
                C[b, a] = np.floor(10 ** rng.uniform(0, 10))
            else:
                C[a, b] = rng.integers(1, 2000)
                C[b, a] = rng.integers(1, 2000)
        inner = np.where((C > 0).sum(axis=1) > 1)[0]
        if len(inner) and rng.random() < 0.5:
            C[inner, inner] = rng.integers(0, 500, size=len(inner))
        C = C.astype(np.int64)
        ctx.count('tree_shaped_cases')
    if rng.random() < 0.15:
        C = C + C.T          # exactly symmetric input
    if rng.random() < 0.2:
        # the estimate is invariant under a common factor on the counts
        C = C * float(10.0 ** int(rng.integers(-4, 5)))
    # the same numbers in another element type (the estimator must compute in
    # double whatever the counts are stored as)
    if rng.random() < 0.35:
        mx = float(np.max(C))
        if np.issubdtype(C.dtype, np.integer):
            cand = ([np.int32, np.uint32] if mx < 2e9 else []) + [np.uint64] + (
                [np.uint16, np.int16] if mx < 3e4 else []) + (
                [np.uint8] if mx < 250 else [])
        else:
            cand = [np.float32]
        C = C.astype(cand[int(rng.integers(0, len(cand)))])
    n = len(C)
    desc = {'n': n, 'dtype': str(C.dtype), 'asym': asym,
            'C': C if n <= 7 else 'elided'}
    ctx.describe(desc)
    Cf = np.asarray(C, dtype=float)
    res = {}
    # --- public builder, dense and one sparse container --------------------
    cname = mc.CONTAINERS[1 + int(rng.integers(0, 7))]
    for tag, Cin in (() if san else (
            ('dense', mc.relayout(rng, C)),
            (cname, mc.to_container(C, cname, rng)))):
        fz = Frozen(Cin)
        try:
            with warnings.catch_warnings(record=True) as w:
                warnings.simplefilter('always')
                Cout, T, pi = builders.mle(Cin)
        except Exception as e:  # noqa
            ctx.violation('mle.builder.raised[%s]' % (
                'dense' if tag == 'dense' else 'sparse'),
                '%s input: %s: %s' % (tag, type(e).__name__, str(e)[:200]))
            continue
        if fz.changed():
            ctx.violation('mle.builder.mutates-input', tag)
        Td = mc.dense(T)
        check_model(ctx, Cf, Td, pi, 'builder', rng,
                    2e-4 if wide_tree else 5e-5)
        res[tag] = (Td, np.asarray(pi))
    if 'dense' in res and cname in res:
        if np.abs(res['dense'][0] - res[cname][0]).max() > 1e-12:
            ctx.violation('mle.builder.container-dependent',
                          '%s result differs from dense' % cname)
    # --- both implementations ----------------------------------------------
    both = {}
    # the count matrix in any memory layout (Fortran order as scipy's csc
    # densifies, a transposed or strided view): same numbers, same estimate
    for tag, fn, arg in (('py', builders._prinz_mle_py, np.array(C)),
                         ('compiled', builders._prinz_mle,
                          mc.relayout(rng, Cf))):
        ctx.seen('layouts', '%s/%s' % (tag, 'C' if arg.flags.c_contiguous
                                       else ('F' if arg.flags.f_contiguous
                                             else 'strided')))
        fz = Frozen(arg)
        try:
            with warnings.catch_warnings(record=True) as w:
                warnings.simplefilter('always')
                T, pi = fn(arg)
        except Exception as e:  # noqa
            ctx.violation('mle.%s.raised' % tag, '%s: %s' % (
                type(e).__name__, str(e)[:200]))
            continue
        if fz.changed():
            ctx.violation('mle.%s.mutates-input' % tag, 'C modified')
        check_model(ctx, Cf, T, pi, tag, rng, 2e-4 if wide_tree else 5e-5)
        both[tag] = (np.asarray(T), np.asarray(pi))
    if len(both) == 2:
        dT = np.abs(both['py'][0] - both['compiled'][0]).max()
        dp = np.abs(both['py'][1] - both['compiled'][1]).max()
        ctx.count('implementations_compared')
        # the stationary vector of a nearly reducible chain amplifies a
        # difference in T by about 1/(spectral gap)
        ev = np.sort(np.abs(np.linalg.eigvals(both['py'][0])))[::-1]
        gap = max(1.0 - (ev[1] if len(ev) > 1 else 0.0), 1e-12)
        # (the two implementations take their logarithms from numpy and from
        # libm; on slowly converging inputs with 8+ decades between counts a
        # last-place difference in the log-likelihood makes one of them stop
        # a sweep earlier, which moves T by a few 1e-6)
        if dT > 1e-5 or dp > 1e-5 + 10 * dT / gap:
            ctx.violation('mle.implementations-disagree',
                          'max |T_py - T_c| = %.3g, |pi| %.3g' % (dT, dp))
    # --- scale invariance: a common factor on the counts (re-weighted counts
    # of 1e-20, pooled counts of 1e+15) leaves the estimate unchanged; decided
    # on T itself, so no tolerance depends on the magnitude of the counts
    if len(both) == 2 and idx % 2 == 0:
        # (downwards only: scaled up, slowly converging problems stop a few
        # sweeps earlier or later because the log-likelihood increments the
        # stopping rule watches fall below one unit in the last place - a
        # limit of double precision, not of the estimator; see DESIGN.md)
        facs = [-30, -20, -12, -6]
        fac = float(10.0 ** facs[int(rng.integers(0, len(facs)))])
        for tag, fn in (('py', builders._prinz_mle_py),
                        ('compiled', builders._prinz_mle)):
            try:
                with warnings.catch_warnings():
                    warnings.simplefilter('ignore')
                    Ts, pis = fn(Cf * fac)
                ctx.count('scale_invariance_compared')
                # judged by likelihood on the unscaled counts (the likelihood
                # can be flat, so T itself may legitimately move)
                Lb = loglik(Cf, both[tag][0])
                Ls = loglik(Cf, np.asarray(Ts))
                if np.isfinite(Lb) and not (Ls >= Lb - 1e-6 * (1 + abs(Lb))):
                    ctx.violation(
                        'mle.%s.scale-dependent' % tag,
                        'counts multiplied by %g: log-likelihood of the '
                        'estimate on the original counts %.12g, of the '
                        'estimate from the original counts %.12g' % (
                            fac, Ls, Lb))
            except Exception as e:  # noqa
                ctx.violation('mle.%s.raised[scaled%s]' % (
                    tag, ',wide-tree' if wide_tree else ''),
                              'counts multiplied by %g: %s: %s' % (
                                  fac, type(e).__name__, str(e)[:200]))
    # --- forced non-convergence: must warn, not raise -----------------------
    mi = int(rng.integers(1, 4))
    for tag, fn, arg in (('py', builders._prinz_mle_py, np.array(C)),
                         ('compiled', builders._prinz_mle, Cf.copy())):
        try:
            with warnings.catch_warnings(record=True) as w:
                warnings.simplefilter('always')
                T, pi = fn(arg, max_iter=mi)
            ctx.count('nonconvergence_runs')
            cw = [x for x in w if issubclass(x.category,
                                             exc_mod.ConvergenceWarning)]
            ctx.count('convergence_warnings_seen', len(cw))
            if not (np.all(np.isfinite(T)) and
                    np.abs(np.asarray(T).sum(axis=1) - 1).max() < 1e-9):
                ctx.violation('mle.%s.nonconverged-model-invalid' % tag,
                              'max_iter=%d result is not stochastic' % mi)
            # "a model or a convergence warning": an iterate returned
            # without the warning has to be the converged estimate
            if not cw and tag in both:
                gap = float(np.abs(np.asarray(T) - both[tag][0]).max())
                ctx.count('silent_returns_compared')
                if gap > 1e-3:
                    ctx.violation(
                        'mle.%s.silent-nonconvergence' % tag,
                        'max_iter=%d: no ConvergenceWarning, but the '
                        'returned matrix is %.3g away from the converged '
                        'estimate' % (mi, gap))
        except Exception as e:  # noqa
            ctx.violation('mle.%s.nonconvergence-raises' % tag,
                          'max_iter=%d: %s: %s' % (mi, type(e).__name__,
                                                   str(e)[:200]))
    offz = (Cf == 0) & ~np.eye(n, dtype=bool)
    if n >= 3 and offz.any() and not np.array_equal(Cf, Cf.T) and \
            len(both) == 2:
        ctx.nontriv(Cf.tobytes())
    if idx % 100 == 0:
        ctx.sample(desc)
