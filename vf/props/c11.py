"""C11 - ergodic trimming keeps exactly the heaviest strongly connected
component."""
import warnings

import numpy as np
import scipy.sparse as sp

from vf import msmcommon as mc

RULE = ('cases = seeded non-negative integer count matrices (n 2-25) built '
        'from planted structures: several strongly connected blocks of chosen '
        'weight, one-way bridges, isolated states, sinks with large in-counts, '
        'size/weight ties, sub-threshold links; thresholds 1-4; renumbering '
        'on/off; all 8 containers; plus MSM(trim=True).fit on sampled '
        'trajectories; non-trivial = >=3 components of which >=2 have more '
        'than one state, joined by at least one one-way bridge, and the '
        'heaviest is not the largest or not the first; distinct by matrix '
        'hash + threshold + renumber')
REQUIRED = ['trim_calls', 'containers_compared', 'msm_fit_calls']
ASSUMPTIONS = ['independent SCC oracle: boolean transitive closure of the '
               'thresholded graph (no scipy.csgraph)',
               'exact weight ties accept any maximal component']


def shards(tier):
    if tier == 'quick':
        return [dict(kind='trim', n=960, parts=16, timeout=900)]
    return [dict(kind='trim', n=32000, parts=16, timeout=3400)]


def setup(ctx):
    global tm, MSM, builders, R
    from enspara.msm import transition_matrices as _tm, builders as _b
    from enspara.msm.msm import MSM as _M
    from enspara.msm import msm as _msmmod
    from enspara.ra.ra import RaggedArray as _R
    from vf import monitor
    tm, MSM, builders, R = _tm, _M, _b, _R
    ctx.h_trim = monitor.attach(tm, 'trim_disconnected')
    ctx.h_fit = monitor.attach(MSM, 'fit')


def teardown(ctx):
    ctx.count('trim_calls', ctx.h_trim.calls)
    ctx.count('msm_fit_calls', ctx.h_fit.calls)


def scc_oracle(C, threshold):
    n = len(C)
    A = (C >= threshold) & (C > 0)
    Rch = A | np.eye(n, dtype=bool)
    for _ in range(int(np.ceil(np.log2(max(n, 2)))) + 1):
        Rch = Rch | ((Rch.astype(np.int32) @ Rch.astype(np.int32)) > 0)
    both = Rch & Rch.T
    comps = []
    seen = np.zeros(n, dtype=bool)
    for i in range(n):
        if not seen[i]:
            mem = np.where(both[i])[0]
            seen[mem] = True
            comps.append(mem)
    w = [int(C[m].astype(np.int64).sum()) for m in comps]
    return comps, w


def planted(rng):
    nb = int(rng.integers(1, 6))
    sizes = [int(rng.integers(1, 7)) for _ in range(nb)]
    if rng.random() < 0.3 and nb >= 2:
        sizes[1] = sizes[0]                      # tie in size
    n_iso = int(rng.integers(0, 3))
    n_sink = int(rng.integers(0, 3))
    n = sum(sizes) + n_iso + n_sink
    if n < 2:
        sizes[0] += 2
        n += 2
    C = np.zeros((n, n), dtype=np.int64)
    thr = int(rng.integers(1, 5))
    blocks = []
    pos = 0
    scale_pool = [1, 1, 2, 5, 20]
    for s in sizes:
        idx = np.arange(pos, pos + s)
        pos += s
        blocks.append(idx)
        sc = scale_pool[int(rng.integers(0, len(scale_pool)))]
        if s > 1:
            perm = rng.permutation(idx)
            for a, b in zip(perm, np.roll(perm, -1)):
                C[a, b] = thr + rng.integers(0, 4) * sc
            ex = rng.random((s, s)) < 0.3
            vals = rng.integers(thr, thr + 5, size=(s, s)) * sc
            sub = C[np.ix_(idx, idx)]
            C[np.ix_(idx, idx)] = np.where(ex & (sub == 0), vals, sub)
        if rng.random() < 0.5:
            C[idx, idx] = rng.integers(0, 6, size=s) * sc
    # one-way bridges (block i -> block j, i<j only, so blocks never merge)
    bridges = 0
    for i in range(nb):
        for j in range(i + 1, nb):
            if rng.random() < 0.5:
                a = blocks[i][int(rng.integers(0, len(blocks[i])))]
                b = blocks[j][int(rng.integers(0, len(blocks[j])))]
                C[a, b] = thr + int(rng.integers(0, 50))
                bridges += 1
    # sub-threshold two-way links (must NOT merge components when thr>1)
    if thr > 1 and nb >= 2 and rng.random() < 0.5:
        a = blocks[0][0]
        b = blocks[1][0]
        C[a, b] = max(C[a, b], thr - 1) if C[a, b] < thr else C[a, b]
        C[b, a] = thr - 1
    # counts below the threshold still carry weight: pad one block with
    # sub-threshold entries so that its lead comes from counts that are not
    # edges of the thresholded graph
    if thr > 1 and rng.random() < 0.6:
        idx = blocks[int(rng.integers(0, nb))]
        sub = C[np.ix_(idx, idx)]
        C[np.ix_(idx, idx)] = np.where(sub == 0, thr - 1, sub)
        if rng.random() < 0.5:
            C[idx, idx] += (thr - 1) * int(rng.integers(1, 6))
    # sinks with large in-counts, no way out
    for k in range(n_sink):
        s_ = pos
        pos += 1
        src = int(rng.integers(0, max(1, sum(sizes))))
        C[src, s_] = thr + int(rng.integers(20, 200))
        if rng.random() < 0.5:
            C[s_, s_] = int(rng.integers(0, 300))
    # random relabelling
    p = rng.permutation(n)
    C = C[np.ix_(p, p)]
    return C, thr, {'blocks': sizes, 'isolated': n_iso, 'sinks': n_sink,
                    'bridges': bridges}


def check_trim(ctx, C, thr, renumber, mapping, Tc, tag):
    n = len(C)
    comps, w = scc_oracle(C, thr)
    try:
        to_orig = dict(mapping.to_original)
        to_map = dict(mapping.to_mapped)
    except Exception as e:  # noqa
        ctx.violation('trim.mapping-unreadable', '%s: %s' % (tag, e))
        return None
    keep = sorted(to_orig.values())
    best = max(w)
    match = [i for i, m in enumerate(comps) if list(m) == keep]
    if not match:
        ctx.violation('trim.kept-set-not-a-component',
                      '[%s] kept %s is not a strongly connected component of '
                      'the graph at threshold %d (components %s)' % (
                          tag, keep, thr, [m.tolist() for m in comps]))
        return None
    if w[match[0]] != best:
        ctx.violation('trim.not-heaviest',
                      '[%s] kept component %s has weight %d, heaviest has %d'
                      % (tag, keep, w[match[0]], best))
    if renumber:
        if sorted(to_orig.keys()) != list(range(len(keep))) or \
                [to_orig[k] for k in range(len(keep))] != keep:
            ctx.violation('trim.mapping-not-order-preserving',
                          '[%s] to_original=%s for kept %s' % (
                              tag, to_orig, keep))
        exp = C[np.ix_(keep, keep)]
    else:
        if any(k != v for k, v in to_orig.items()):
            ctx.violation('trim.mapping-not-identity',
                          '[%s] in-place variant maps %s' % (tag, to_orig))
        exp = np.zeros_like(C)
        exp[np.ix_(keep, keep)] = C[np.ix_(keep, keep)]
    if {v: k for k, v in to_orig.items()} != to_map:
        ctx.violation('trim.mapping-inverse', '[%s] to_mapped is not the '
                      'inverse of to_original' % tag)
    if Tc.shape != exp.shape or not np.array_equal(Tc, exp):
        ctx.violation('trim.counts-wrong',
                      '[%s] trimmed matrix differs from C[keep][:,keep]%s' % (
                          tag, '' if renumber else ' embedded in zeros'))
    return keep


def run_case(ctx, kind, rng, idx):
    from vf.monitor import Frozen
    C, thr, info = planted(rng)
    C = C.astype([np.int64, np.int64, np.int32, np.uint32, np.uint16][
        int(rng.integers(0, 5))])
    if rng.random() < 0.04:
        # component totals beyond 2**53 that differ by one or two counts:
        # "largest total count" has to be decided in exact integer arithmetic
        k = int(rng.integers(2, 4))
        sz = [int(rng.integers(2, 4)) for _ in range(k)]
        n_h = sum(sz)
        base = 2 ** int(rng.integers(54, 59))
        C = np.zeros((n_h, n_h), dtype=object)
        pos, totals = 0, []
        for s_ in sz:
            ids = list(range(pos, pos + s_))
            for a_, b_ in zip(ids, ids[1:] + ids[:1]):
                C[a_, b_] = base * 3 // s_
            totals.append(sum(int(C[a_].sum()) for a_ in ids))
            pos += s_
        # equalise, then make one component heavier by a count or two
        top = max(totals)
        pos = 0
        for j_, s_ in enumerate(sz):
            C[pos, pos + 1] += top - totals[j_]
            pos += s_
        win = int(rng.integers(0, k))
        C[sum(sz[:win]), sum(sz[:win]) + 1] += int(rng.integers(1, 3))
        C = np.array(C.tolist(), dtype=[np.int64, np.uint64][
            int(rng.integers(0, 2))])
        p_ = rng.permutation(n_h)
        C = C[np.ix_(p_, p_)]
        thr = 1
        info = {'blocks': sz, 'isolated': 0, 'sinks': 0, 'bridges': 0,
                'huge-near-tie': True}
        ctx.count('huge_near_tie_cases')
    n = len(C)
    renumber = bool(rng.random() < 0.5)
    desc = dict(info, n=n, threshold=thr, renumber=renumber,
                C=C if n <= 9 else 'elided')
    ctx.describe(desc)
    # the threshold as a caller may hold it: Python / numpy integer, an
    # integral float, or a genuinely fractional value ("at or above 2.5")
    tk = int(rng.integers(0, 6))
    thr_arg = [thr, np.int64(thr), float(thr), np.int32(thr),
               thr - 0.5, np.float64(thr) - 0.25][tk]
    if tk >= 4 and info.get('huge-near-tie'):
        thr_arg = thr
    thr = thr_arg if tk >= 4 and not info.get('huge-near-tie') else thr
    comps, w = scc_oracle(C, thr)
    keeps = {}
    for cname in mc.CONTAINERS:
        Cin = mc.to_container(C, cname, rng)
        fz = Frozen(Cin)
        try:
            mapping, Tc = tm.trim_disconnected(
                Cin, threshold=thr_arg,
                renumber_states=[renumber, np.bool_(renumber),
                                 int(renumber)][idx % 3])
        except Exception as e:  # noqa
            ctx.violation('trim.raised[%s]' % (
                'dense' if cname == 'ndarray' else 'sparse'),
                '%s: %s: %s' % (cname, type(e).__name__, str(e)[:200]))
            continue
        if fz.changed():
            ctx.violation('trim.mutates-input', cname)
        if type(Tc) is not type(Cin):
            ctx.violation('trim.container', '%s in, %s out' % (
                cname, type(Tc).__name__))
        keeps[cname] = (check_trim(ctx, C, thr, renumber, mapping,
                                   mc.dense(Tc), cname), mc.dense(Tc))
        ctx.count('containers_compared')
    # numpy.matrix (what sparse.todense() hands back): `*` is the matrix
    # product there, everything else behaves like the ndarray
    if idx % 3 == 0:
        try:
            with warnings.catch_warnings():
                warnings.simplefilter('ignore')
                Cm = np.asmatrix(np.array(C))
                mapping, Tm = tm.trim_disconnected(
                    Cm, threshold=thr_arg, renumber_states=renumber)
            ctx.count('numpy_matrix_inputs')
            keeps['np.matrix'] = (check_trim(
                ctx, C, thr, renumber, mapping, np.asarray(Tm), 'np.matrix'),
                np.asarray(Tm))
        except Exception as e:  # noqa
            ctx.violation('trim.raised[dense]', 'np.matrix: %s: %s' % (
                type(e).__name__, str(e)[:200]))
    if 'ndarray' in keeps:
        k0, T0 = keeps['ndarray']
        for cname, (k, Td) in keeps.items():
            if k != k0 or Td.shape != T0.shape or not np.array_equal(Td, T0):
                ctx.violation('trim.container-dependent',
                              '%s result differs from dense' % cname)
    # renumbered and in-place variants describe the same model
    try:
        m1, t1 = tm.trim_disconnected(np.array(C), threshold=thr,
                                      renumber_states=True)
        m2, t2 = tm.trim_disconnected(np.array(C), threshold=thr,
                                      renumber_states=False)
        k1 = sorted(m1.to_original.values())
        k2 = sorted(m2.to_original.values())
        if k1 != k2 or not np.array_equal(t2[np.ix_(k1, k1)], t1):
            ctx.violation('trim.variants-disagree',
                          'renumbered keeps %s, in-place keeps %s' % (k1, k2))
    except Exception as e:  # noqa
        ctx.crash('trim.variants.raised', e)
    # the mapping survives its own save/load and read/write
    if idx % 3 == 0:
        import io
        try:
            m1, _ = tm.trim_disconnected(np.array(C), threshold=thr,
                                         renumber_states=renumber)
            buf = io.StringIO()
            m1.write(buf)
            buf.seek(0)
            m2 = tm.TrimMapping.read(buf)
            ctx.count('mapping_roundtrips')
            if dict(m2.to_original) != dict(m1.to_original) or \
                    dict(m2.to_mapped) != dict(m1.to_mapped) or not (m1 == m2):
                ctx.violation('trim.mapping-roundtrip',
                              'TrimMapping.write/read changed the mapping: %s '
                              '-> %s' % (m1.to_original, m2.to_original))
        except Exception as e:  # noqa
            ctx.crash('trim.mapping-roundtrip.raised', e)
    # through the estimator (default threshold 1)
    if idx % 2 == 0:
        run_msm(ctx, rng, C)
    multi = [m for m in comps if len(m) > 1]
    heaviest = int(np.argmax(w))
    largest = int(np.argmax([len(m) for m in comps]))
    if len(comps) >= 3 and len(multi) >= 2 and info['bridges'] >= 1 and (
            heaviest != largest or heaviest != 0):
        ctx.nontriv(C.tobytes(), thr, renumber)
    if idx % 250 == 0:
        ctx.sample(desc)


def run_msm(ctx, rng, C):
    """Sample trajectories on the planted graph, fit MSM(trim=True) and
    compare with the function applied to the same counts."""
    n = len(C)
    P = C.astype(float)
    trajs = []
    for _ in range(int(rng.integers(2, 7))):
        s = int(rng.integers(0, n))
        t = [s]
        for _ in range(int(rng.integers(2, 40))):
            row = P[s]
            if row.sum() == 0:
                break
            s = int(rng.choice(n, p=row / row.sum()))
            t.append(s)
        trajs.append(np.array(t))
    if sum(len(t) for t in trajs) < 4:
        return
    a = R(trajs)
    lag = int(rng.integers(1, 3))
    try:
        counts = tm.assigns_to_counts(a, lag_time=lag)
        if counts.sum() == 0:
            return
        m = MSM(lag_time=lag, method=builders.normalize, trim=True)
        m.fit(a)
        mp, tc = tm.trim_disconnected(counts)
    except Exception as e:  # noqa
        ctx.crash('trim.msm.raised', e)
        return
    Cd = mc.dense(counts)
    check_trim(ctx, Cd, 1, True, m.mapping_, mc.dense(m.tcounts_), 'MSM.fit')
    if dict(m.mapping_.to_original) != dict(mp.to_original) or not \
            np.array_equal(mc.dense(m.tcounts_), mc.dense(tc)):
        ctx.violation('trim.msm-differs-from-function',
                      'MSM(trim=True) mapping/counts differ from '
                      'trim_disconnected on the same counts')
    ctx.count('msm_trim_compared')
