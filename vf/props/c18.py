"""C18 - joint counts are exact and mutual information obeys its algebraic
laws."""
import ctypes
import warnings

import numpy as np

RULE = ('cases = (counts) feature trajectories T 1-400 frames x 1-6 features '
        'per side (different numbers of features and of states on the two '
        'sides) x 8 integer dtypes x C/F/strided layouts, several '
        'trajectories per call, hostile inputs (negative ids, ids >= declared '
        'count, unequal lengths, mixed dtypes), OMP_NUM_THREADS 1-16, in the '
        'plain, ASan+UBSan and TSan+interposer builds; (algebra) MI '
        'identities on the resulting tables, weighted MI, channel-capacity '
        'normalisation on non-square cases, KL divergence; non-trivial = '
        'counts case with >=2 features per side and different state counts '
        'on the two sides, or algebra case with a non-square MI matrix; '
        'distinct by content hash + configuration')
REQUIRED = ['joint_counts_calls', 'kernel_calls', 'cells_compared',
            'hostile_rejected', 'identities_checked']
ASSUMPTIONS = ['reference counts by np.add.at on int64; identities with '
               'tolerance 1e-10',
               'sanitizer part as C13']

IDT = [np.int8, np.int16, np.int32, np.int64, np.uint8, np.uint16, np.uint32,
       np.uint64]


def shards(tier):
    q = tier == 'quick'
    out = []
    for i, t in enumerate([1, 2, 3, 4, 8, 16]):
        out.append(dict(kind='counts', n=150 if q else 4000, start=i * 100000,
                        parts=1, env={'OMP_NUM_THREADS': t}, timeout=1800))
    for i, t in enumerate([1, 4] if q else [1, 2, 4, 16]):
        out.append(dict(kind='counts', n=60 if q else 1500,
                        start=(10 + i) * 100000, parts=1, variant='asan',
                        env={'OMP_NUM_THREADS': t}, timeout=3000))
    for i, t in enumerate([2, 4, 8, 16]):
        out.append(dict(kind='counts', n=40 if q else 800,
                        start=(20 + i) * 100000, parts=1, variant='tsan',
                        env={'OMP_NUM_THREADS': t}, timeout=3000))
    out.append(dict(kind='algebra', n=640 if q else 16000, parts=4,
                    start=5000000, timeout=1800))
    return out


def setup(ctx):
    global mi, libinfo, entropy, exc
    from enspara.info_theory import mutual_info as _mi, libinfo as _li, \
        entropy as _en
    from enspara import exception as _e
    from vf import monitor
    mi, libinfo, entropy, exc = _mi, _li, _en, _e
    ctx.h_jc = monitor.attach(mi, 'joint_counts')
    ctx.kernel_calls = 0
    orig = libinfo.matrix_bincount2d

    class LibProxy:
        """enspara.info_theory.mutual_info looks the kernel up as
        libinfo.matrix_bincount2d; count the calls that reach it."""

        def __getattr__(self, name):
            return getattr(libinfo, name)

        def matrix_bincount2d(self, *a, **k):
            ctx.kernel_calls += 1
            return orig(*a, **k)
    mi.libinfo = LibProxy()
    ctx.omp = None
    try:
        ctx.omp = ctypes.CDLL(None).vf_gomp_regions
        ctx.omp.restype = ctypes.c_long
    except (AttributeError, OSError):
        ctx.omp = None
    ctx.earlier = []        # previously returned tables and their copies


def teardown(ctx):
    ctx.count('joint_counts_calls', ctx.h_jc.calls)
    ctx.count('kernel_calls', ctx.kernel_calls)
    if ctx.omp is not None:
        ctx.count('omp_regions_seen_by_interposer', int(ctx.omp()))
        if ctx.spec.get('variant') == 'tsan' and ctx.omp() == 0:
            ctx.violation('harness.no-omp-regions',
                          'interposer saw no parallel region')
    if ctx.spec['kind'] == 'algebra':
        # counters required globally but produced by the other kind
        pass


def ref_counts(X, Y, n_x, n_y):
    T, fx = X.shape
    fy = Y.shape[1]
    jc = np.zeros((fx, fy, n_x, n_y), dtype=np.int64)
    Xi = X.astype(np.int64)
    Yi = Y.astype(np.int64)
    for a in range(fx):
        for b in range(fy):
            np.add.at(jc[a, b], (Xi[:, a], Yi[:, b]), 1)
    return jc


def lay(rng, A):
    k = int(rng.integers(0, 4))
    T, f = A.shape
    if k == 0:
        return np.ascontiguousarray(A), 'C'
    if k == 1:
        return np.asfortranarray(A), 'F'
    if k == 2:
        big = np.zeros((T * 2, f * 2), dtype=A.dtype)
        big[::2, 1::2] = A
        return big[::2, 1::2], 'strided'
    return np.ascontiguousarray(A[::-1, ::-1])[::-1, ::-1], 'negstride'


def gen_feat(rng, T, f, n_states, dtype):
    hi = min(n_states, int(np.iinfo(dtype).max) + 1)
    A = rng.integers(0, hi, size=(T, f))
    # leave some declared states unobserved
    if rng.random() < 0.4 and hi > 2:
        A = np.minimum(A, hi - 2)
    return A.astype(dtype)


def entropy_ref(p):
    p = np.asarray(p, dtype=float)
    p = p[p > 0]
    return float(-(p * np.log(p)).sum())


def mi_ref(tab):
    tab = np.asarray(tab, dtype=float)
    n = tab.sum()
    if n == 0:
        return 0.0
    P = tab / n
    px = P.sum(axis=1)
    py = P.sum(axis=0)
    m = P > 0
    return float((P[m] * np.log(P[m] / np.outer(px, py)[m])).sum())


def run_counts(ctx, rng, idx):
    T = [1, 2, 5, 40, int(rng.integers(1, 401))][int(rng.integers(0, 5))]
    fx, fy = int(rng.integers(1, 7)), int(rng.integers(1, 7))
    nx, ny = int(rng.integers(2, 10)), int(rng.integers(2, 10))
    r = rng.random()
    if r < 0.015:
        # frame count and single cells beyond 16-bit ranges
        T = int(rng.integers(66000, 140000))
        fx, fy, nx, ny = int(rng.integers(1, 3)), int(rng.integers(1, 3)), \
            2, int(rng.integers(2, 4))
        ctx.count('very_long_trajectory_cases')
    elif r < 0.06:
        T = int(rng.integers(3000, 9000))           # long trajectory
    elif r < 0.12:
        nx, ny = int(rng.integers(40, 120)), int(rng.integers(2, 90))
    elif r < 0.18:
        fx, fy = int(rng.integers(12, 24)), int(rng.integers(1, 20))
    dtype = IDT[int(rng.integers(0, len(IDT)))]
    selfpair = rng.random() < 0.25
    ydtype = dtype
    if not selfpair and rng.random() < 0.3:
        # valid mixed-dtype call (joint_counts harmonises the types); state
        # ids beyond the narrower type must survive
        ydtype = IDT[int(rng.integers(0, len(IDT)))]
        wide = dtype if np.dtype(dtype).itemsize >= np.dtype(
            ydtype).itemsize else ydtype
        if np.dtype(wide).itemsize >= 2 and rng.random() < 0.7:
            if wide == dtype:
                nx = int(rng.integers(130, 400))
            else:
                ny = int(rng.integers(130, 400))
    X0 = gen_feat(rng, T, fx, nx, dtype)
    Y0 = X0 if selfpair else gen_feat(rng, T, fy, ny, ydtype)
    if not selfpair and rng.random() < 0.5:
        # make sure the top declared states are actually visited
        X0[0, 0] = min(nx - 1, int(np.iinfo(dtype).max))
        Y0[0, 0] = min(ny - 1, int(np.iinfo(ydtype).max))
    X, lx = lay(rng, X0)
    Y, ly = (X, lx) if selfpair else lay(rng, Y0)
    explicit = rng.random() < 0.6
    desc = {'T': T, 'features': [fx, fy], 'states': [nx, ny],
            'dtype': np.dtype(dtype).name,
            'ydtype': np.dtype(ydtype).name, 'layout': [lx, ly],
            'self': selfpair, 'explicit_counts': explicit,
            'omp': ctx.spec.get('env', {}).get('OMP_NUM_THREADS')}
    ctx.describe(desc)
    ctx.seen('configs', '%s/%s/%s/%s' % (np.dtype(dtype).name,
                                         np.dtype(ydtype).name, lx, ly))
    Xk, Yk = X.copy(), Y.copy()
    try:
        with warnings.catch_warnings():
            warnings.simplefilter('ignore')
            if selfpair:
                jc = mi.joint_counts(X, n_x=nx if explicit else None)
                e_nx = e_ny = nx if explicit else int(X0.max()) + 1
            else:
                as_np = rng.random() < 0.3
                jc = mi.joint_counts(
                    X, Y, n_x=(np.int64(nx) if as_np else nx) if explicit
                    else None, n_y=(np.int32(ny) if as_np else ny)
                    if explicit else None)
                e_nx = nx if explicit else int(X0.max()) + 1
                e_ny = ny if explicit else int(Y0.max()) + 1
    except Exception as e:  # noqa
        ctx.violation('jc.valid-call-raised', '%s: %s (%s)' % (
            type(e).__name__, str(e)[:200], desc))
        return
    if not (np.array_equal(X, Xk) and np.array_equal(Y, Yk)):
        ctx.violation('jc.mutates-input', 'feature arrays modified')
    exp = ref_counts(X0, Y0, e_nx, e_ny)
    jc = np.asarray(jc)
    ctx.count('cells_compared', int(exp.size))
    if jc.shape != exp.shape:
        ctx.violation('jc.shape', '%s expected %s' % (jc.shape, exp.shape))
        return
    if not np.array_equal(jc.astype(np.int64), exp):
        w = np.argwhere(jc.astype(np.int64) != exp)[:4].tolist()
        ctx.violation('jc.wrong-counts',
                      'cells %s: got %s expected %s (%s)' % (
                          w, [int(jc[tuple(c)]) for c in w],
                          [int(exp[tuple(c)]) for c in w], desc))
        return
    blocks = jc.reshape(jc.shape[0], jc.shape[1], -1).sum(axis=2)
    if not np.all(blocks == T):
        ctx.violation('jc.not-conserved', 'some (x,y) block does not sum to '
                      'the number of frames %d' % T)
    # remember the table: hostile calls later must not change it
    if len(ctx.earlier) < 6:
        ctx.earlier.append((jc, jc.copy()))
    # ---- hostile inputs ------------------------------------------------------
    if idx % 2 == 0:
        hk = int(rng.integers(0, 5))
        # a signed type wide enough for the ids written below
        sd = np.int32 if (np.issubdtype(dtype, np.unsignedinteger) or
                          np.dtype(dtype).itemsize < 4) else dtype
        Xh, Yh = X0.astype(sd).copy(), gen_feat(rng, T, fy, ny, sd)
        name = ''
        kw = dict(n_x=nx, n_y=ny)
        if hk == 0:
            Xh[int(rng.integers(0, T)), int(rng.integers(0, fx))] = -1
            name = 'negative-id-x'
        elif hk == 1:
            Yh[int(rng.integers(0, T)), int(rng.integers(0, fy))] = \
                -int(rng.integers(1, 4))
            name = 'negative-id-y'
        elif hk == 2:
            Xh[int(rng.integers(0, T)), int(rng.integers(0, fx))] = nx
            name = 'id-too-large-x'
        elif hk == 3:
            Yh[int(rng.integers(0, T)), int(rng.integers(0, fy))] = \
                ny + int(rng.integers(0, 3))
            name = 'id-too-large-y'
        else:
            Yh = np.vstack([Yh, Yh[:1]])
            name = 'unequal-lengths'
        if hk < 4 and rng.random() < 0.4:
            # an undeclared id that equals a legal one modulo 2^8, 2^16 or
            # 2^32 (what a narrowing cast would turn it into)
            w = [8, 16, 32][int(rng.integers(0, 3))]
            wd = np.int64 if w == 32 else (
                np.int32 if np.dtype(sd).itemsize < 4 else sd)
            side, f, n = ((Xh, fx, nx) if hk in (0, 2) else (Yh, fy, ny))
            side = side.astype(wd)
            k = int(rng.integers(1, 3)) * (-1 if hk < 2 else 1)
            nmax = int(np.max(n))
            v = int(rng.integers(0, int(np.min(n)))) + k * 2 ** w
            while 0 <= v < nmax:
                # with >= 2^w declared states legal + 2^w can itself be
                # legal: keep stepping until it really is undeclared
                v += (1 if k > 0 else -1) * 2 ** w
            side[int(rng.integers(0, T)), int(rng.integers(0, f))] = v
            if hk in (0, 2):
                Xh = side
            else:
                Yh = side
            name += '/alias-2^%d' % w
        ctx.seen('hostile_kinds', name)
        try:
            with warnings.catch_warnings():
                warnings.simplefilter('ignore')
                bad = mi.joint_counts(Xh, Yh, **kw)
        except Exception:  # noqa
            ctx.count('hostile_rejected')
        else:
            ctx.violation('jc.hostile-accepted[%s]' % name,
                          'joint_counts accepted %s and returned a table '
                          'with total %d' % (name, int(np.asarray(bad).sum())))
        for tab, keep in ctx.earlier:
            if not np.array_equal(tab, keep):
                ctx.violation('jc.earlier-table-corrupted',
                              'a previously returned table changed after a '
                              'hostile call (%s)' % name)
                ctx.earlier = []
                break
    if fx >= 2 and fy >= 2 and e_nx != e_ny and not selfpair:
        ctx.nontriv('counts', X0.tobytes(), Y0.tobytes(), e_nx, e_ny,
                    np.dtype(dtype).name, lx, ly, desc['omp'])
    if idx % 100 == 0:
        ctx.sample(desc)


def run_algebra(ctx, rng, idx):
    T = int(rng.integers(2, 300))
    fx, fy = int(rng.integers(1, 6)), int(rng.integers(1, 6))
    nxs = rng.integers(2, 8, size=fx)
    nys = rng.integers(2, 8, size=fy)
    # state counts as callers hold them: the rotamer code returns int16
    # arrays, `X.max() + 1` of compactly stored assignments is an int8 /
    # uint8 scalar
    ndt = [np.int64, np.int64, np.int32, np.int16, np.int8, np.uint8][
        int(rng.integers(0, 6))]
    nxs, nys = nxs.astype(ndt), nys.astype(ndt)
    X = np.stack([rng.integers(0, n, size=T) for n in nxs], axis=1
                 ).astype(np.int32)
    Y = np.stack([rng.integers(0, n, size=T) for n in nys], axis=1
                 ).astype(np.int32)
    if rng.random() < 0.5 and fy >= 1:
        # correlate a Y feature with an X feature
        Y[:, 0] = np.minimum(X[:, 0], nys[0] - 1)
    NX, NY = int(nxs.max()), int(nys.max())
    desc = {'T': T, 'n_x': nxs.tolist(), 'n_y': nys.tolist()}
    ctx.describe(desc)
    tol = 1e-10
    ok = True

    def bad(key, msg):
        nonlocal ok
        ok = False
        ctx.violation('mi.' + key, msg)
    with warnings.catch_warnings():
        warnings.simplefilter('ignore')
        try:
            jc = mi.joint_counts(X, Y, n_x=NX, n_y=NY)
            M = mi.mutual_information(jc)
            jxx = mi.joint_counts(X, n_x=NX)
            Mxx = mi.mutual_information(jxx)
        except Exception as e:  # noqa
            ctx.crash('mi.raised', e)
            return
    ctx.count('identities_checked')
    if M.shape != (fx, fy):
        bad('shape', '%s' % (M.shape,))
        return
    Hx = [entropy_ref(np.bincount(X[:, a], minlength=NX) / T)
          for a in range(fx)]
    Hy = [entropy_ref(np.bincount(Y[:, b], minlength=NY) / T)
          for b in range(fy)]
    for a in range(fx):
        for b in range(fy):
            r = mi_ref(np.asarray(jc[a, b], dtype=float))
            if abs(M[a, b] - r) > tol:
                bad('value', 'MI[%d,%d]=%.12g, reference %.12g' % (
                    a, b, M[a, b], r))
            if M[a, b] < -tol:
                bad('negative', 'MI[%d,%d]=%.3g' % (a, b, M[a, b]))
            if M[a, b] > min(Hx[a], Hy[b]) + tol:
                bad('exceeds-entropy', 'MI[%d,%d]=%.12g > min(H)=%.12g' % (
                    a, b, M[a, b], min(Hx[a], Hy[b])))
    if np.abs(Mxx - Mxx.T).max() > tol:
        bad('self-not-symmetric', 'MI(X,X) not symmetric')
    for a in range(fx):
        p = np.bincount(X[:, a], minlength=NX) / T
        try:
            h = float(entropy.shannon_entropy(p))
        except Exception as e:  # noqa
            bad('entropy-raised', '%s' % e)
            continue
        if abs(h - Hx[a]) > tol:
            bad('entropy-value', 'shannon_entropy=%.12g reference %.12g' % (
                h, Hx[a]))
        if abs(Mxx[a, a] - Hx[a]) > tol:
            bad('diagonal-not-entropy', 'MI(X_a,X_a)=%.12g H=%.12g' % (
                Mxx[a, a], Hx[a]))
    # relabelling states and permuting frames
    perm = rng.permutation(T)
    relab = rng.permutation(NX)
    with warnings.catch_warnings():
        warnings.simplefilter('ignore')
        M2 = mi.mutual_information(mi.joint_counts(
            relab[X][perm].astype(np.int32), Y[perm], n_x=NX, n_y=NY))
    if np.abs(M2 - M).max() > tol:
        bad('not-invariant', 'MI changed under state relabelling / frame '
            'permutation by %.3g' % np.abs(M2 - M).max())
    # several trajectories: pooled counts
    cut = int(rng.integers(1, T))
    n_x_arg = nxs if rng.random() < 0.5 else NX
    n_y_arg = nys if not np.isscalar(n_x_arg) else NY
    for normalize in (False, True):
        try:
            with warnings.catch_warnings():
                warnings.simplefilter('ignore')
                Mm = mi.mi_matrix([X[:cut], X[cut:]], [Y[:cut], Y[cut:]],
                                  n_x_arg, n_y_arg, normalize=normalize)
        except Exception as e:  # noqa
            bad('mi_matrix-raised[%s]' % (
                'nonsquare' if fx != fy else 'square'),
                'normalize=%s n_x=%s n_y=%s: %s: %s' % (
                    normalize, nxs.tolist(), nys.tolist(), type(e).__name__,
                    str(e)[:200]))
            continue
        exp = M.copy()
        if normalize:
            exp = exp / np.log(np.minimum(
                np.broadcast_to(np.asarray(n_x_arg), (fx,))[:, None],
                np.broadcast_to(np.asarray(n_y_arg), (fy,))[None, :]
            ).astype(np.float64))
        if Mm.shape != exp.shape or np.abs(Mm - exp).max() > tol:
            bad('mi_matrix-wrong[%s]' % ('normalized' if normalize
                                         else 'pooled'),
                'mi_matrix(normalize=%s) differs from %s' % (
                    normalize, 'MI/log(min(n_x[i],n_y[j]))' if normalize
                    else 'MI of the pooled counts'))
    # the serial reference implementation agrees with the pooled matrix
    if idx % 3 == 0:
        try:
            with warnings.catch_warnings():
                warnings.simplefilter('ignore')
                Xs = [X[:cut], X[cut:]]
                ms = mi.mi_matrix_serial(Xs, Xs, nxs, nxs, normalize=False)
                mp_ = mi.mi_matrix(Xs, Xs, NX, NX, normalize=False)
            if np.abs(ms - mp_).max() > tol:
                bad('serial-differs', 'mi_matrix_serial differs from '
                    'mi_matrix by %.3g' % np.abs(ms - mp_).max())
        except Exception as e:  # noqa
            bad('serial-raised', '%s: %s' % (type(e).__name__, str(e)[:200]))
    # ids beyond the declared range must be rejected through mi_matrix as
    # well - with separate arrays for the two sides and with the very same
    # objects passed for both (self-information of one data set)
    if idx % 3 == 1 and int(X.max()) >= 1:
        top = int(X.max())
        under = np.array(NX if np.ndim(NX) else [NX] * X.shape[1]).copy()
        under[:] = np.minimum(under, top)       # declares one state too few
        Xs = [X[:cut], X[cut:]] if cut and cut < len(X) else [X]
        for form, Ys in (('same-objects', Xs),
                         ('copies', [x.copy() for x in Xs])):
            try:
                with warnings.catch_warnings():
                    warnings.simplefilter('ignore')
                    got = mi.mi_matrix(Xs, Ys, NX, under, normalize=False)
            except Exception:  # noqa
                ctx.count('hostile_rejected')
            else:
                bad('mi-matrix-accepts-undeclared-state[%s]' % form,
                    'state id %d with n_y declared as %s was not rejected' % (
                        top, under.tolist()))
    # channel capacity normalisation directly, non-square
    try:
        fz = M.copy()
        cc = mi.channel_capacity_normalization(M, nxs, nys)
        exp = M / np.log(np.minimum(nxs[:, None], nys[None, :]).astype(np.float64))
        if not np.array_equal(M, fz):
            bad('ccn-mutates-input', 'mi modified in place')
        if cc.shape != exp.shape or np.abs(cc - exp).max() > tol:
            bad('ccn-wrong', 'entry (i,j) is not mi/log(min(n_x[i],n_y[j])) '
                '(n_x=%s n_y=%s)' % (nxs.tolist(), nys.tolist()))
    except Exception as e:  # noqa
        bad('ccn-raised[%s]' % ('nonsquare' if fx != fy else 'square'),
            'n_x=%s n_y=%s: %s: %s' % (nxs.tolist(), nys.tolist(),
                                       type(e).__name__, str(e)[:200]))
    # weighted MI under uniform weights == count-based MI of X against X
    if idx % 2 == 0:
        w = np.full(T, 1.0 / T)
        for normalize in (False, True):
            try:
                with warnings.catch_warnings():
                    warnings.simplefilter('ignore')
                    W = mi.weighted_mi(X, w, n_feature_states=nxs,
                                       normalize=normalize)
            except Exception as e:  # noqa
                bad('weighted-raised', '%s: %s' % (type(e).__name__,
                                                   str(e)[:200]))
                continue
            exp = np.maximum(Mxx, 0)
            if normalize:
                exp = exp / np.log(np.minimum(nxs[:, None], nxs[None, :]).astype(np.float64))
            if W.shape != exp.shape or np.abs(W - exp).max() > 1e-9:
                bad('weighted-differs[%s]' % ('normalized' if normalize
                                              else 'plain'),
                    'weighted_mi(uniform) differs from count-based MI by '
                    '%.3g' % np.abs(W - exp).max())
    # KL divergence
    k = int(rng.integers(2, 9))
    P = rng.random((3, k))
    P[rng.random((3, k)) < 0.2] = 0
    P[:, 0] += 0.1
    P /= P.sum(axis=1, keepdims=True)
    Q = rng.random((3, k)) + 0.05
    if rng.random() < 0.4:
        # exact zeros in Q as well (shared with P or not): a cell with
        # P > 0 = Q makes the divergence +inf, never zero or negative
        Q[rng.random((3, k)) < 0.25] = 0
        Q[:, 0] += 0.05
    Q /= Q.sum(axis=1, keepdims=True)
    try:
        d = np.asarray(entropy.kl_divergence(P, Q, base=np.e))
        d0 = np.asarray(entropy.kl_divergence(P, P.copy()))
        refd = np.array([sum((p * np.log(p / q) if q > 0 else np.inf)
                             for p, q in zip(Pr, Qr) if p > 0)
                         for Pr, Qr in zip(P, Q)])
        fin = np.isfinite(refd)
        ctx.count('kl_infinite_expected', int((~fin).sum()))
        if np.any(np.isnan(d)) or np.any(d < -tol) or \
                not np.array_equal(np.isposinf(d), ~fin) or (
                fin.any() and np.abs(d[fin] - refd[fin]).max() > 1e-9):
            bad('kl-wrong', 'kl %s reference %s' % (d, refd))
        if np.abs(d0).max() > tol:
            bad('kl-not-zero-for-equal', '%s' % d0)
        if np.any((np.abs(P - Q).max(axis=1) > 1e-6) & (d <= 1e-14)):
            bad('kl-zero-for-different', '%s' % d)
    except Exception as e:  # noqa
        bad('kl-raised', '%s: %s' % (type(e).__name__, e))
    # the same quantity through the MSM-level entry points
    try:
        Pm = rng.random((k, k)) + 0.02
        Pm[rng.random((k, k)) < 0.2] = 0
        Pm[np.arange(k), (np.arange(k) + 1) % k] += 0.1
        Pm /= Pm.sum(axis=1, keepdims=True)
        Qm = rng.random((k, k)) + 0.02
        if rng.random() < 0.3:
            Qm[rng.random((k, k)) < 0.15] = 0
            Qm[np.arange(k), (np.arange(k) + 1) % k] += 0.1
        Qm /= Qm.sum(axis=1, keepdims=True)
        refm = np.array([sum((p_ * np.log(p_ / q_) if q_ > 0 else np.inf)
                             for p_, q_ in zip(Pr, Qr) if p_ > 0)
                         for Pr, Qr in zip(Pm, Qm)])
        pops = rng.random(k) + 0.05
        pops /= pops.sum()
        ps = np.asarray(entropy.relative_entropy_per_state(
            Pm, Q=Qm, base=np.e), dtype=float)
        tot = float(entropy.relative_entropy_msm(
            Pm, Q=Qm, populations=pops.copy(), base=np.e))
        sub = np.sort(rng.choice(k, size=int(rng.integers(1, k + 1)),
                                 replace=False))
        pss = np.asarray(entropy.relative_entropy_per_state(
            Pm, Q=Qm, state_subset=sub, base=np.e), dtype=float)
        ctx.count('relative_entropy_msm_checked')

        def same(a, b):
            a, b = np.asarray(a, dtype=float), np.asarray(b, dtype=float)
            f = np.isfinite(b)
            return a.shape == b.shape and not np.any(np.isnan(a)) and \
                np.array_equal(np.isposinf(a), ~f) and (
                    not f.any() or np.abs(a[f] - b[f]).max() < 1e-9)
        if not same(ps, refm):
            bad('relative-entropy-per-state', '%s reference %s' % (ps, refm))
        if not same(pss, refm[sub]):
            bad('relative-entropy-per-state[subset]', '%s reference %s' % (
                pss, refm[sub]))
        if not same([tot], [float(np.sum(pops * refm))]):
            bad('relative-entropy-msm', '%s reference %s' % (
                tot, float(np.sum(pops * refm))))
        j1 = np.asarray(entropy.js_divergence(P, Q), dtype=float)
        j2 = np.asarray(entropy.js_divergence(Q, P), dtype=float)
        j0 = np.asarray(entropy.js_divergence(P, P.copy()), dtype=float)
        M_ = 0.5 * (P + Q)

        def klb2(A, B):
            return np.array([sum(a * np.log2(a / b) for a, b in zip(Ar, Br)
                                 if a > 0) for Ar, Br in zip(A, B)])
        refj = 0.5 * klb2(P, M_) + 0.5 * klb2(Q, M_)
        if np.any(~np.isfinite(j1)) or np.abs(j1 - refj).max() > 1e-9 or \
                np.abs(j1 - j2).max() > 1e-9 or np.abs(j0).max() > tol or \
                np.any(j1 < -tol) or np.any(j1 > 1 + 1e-9):
            bad('js-wrong', 'js %s / %s reference %s, self %s' % (
                j1, j2, refj, j0))
    except Exception as e:  # noqa
        bad('relative-entropy-raised', '%s: %s' % (type(e).__name__, e))
    if ok and fx != fy:
        ctx.nontriv('alg', X.tobytes(), Y.tobytes())
    if idx % 200 == 0:
        ctx.sample(desc)


def run_case(ctx, kind, rng, idx):
    if kind == 'counts':
        run_counts(ctx, rng, idx)
    else:
        run_algebra(ctx, rng, idx)
