"""C16 - MSM estimator equals its function pipeline, round-trips, and has a
sound spectrum."""
import os
import shutil
import tempfile
import warnings

import numpy as np
import scipy.sparse as sp

from vf import msmcommon as mc

RULE = ('cases = (a) seeded assignment sets x lag x builder (normalize / '
        'transpose / mle, by object or name) x trim x sliding_window x '
        'max_n_states: estimator vs explicit function pipeline, arguments '
        'actually passed to assigns_to_counts/trim/builder are recorded, then '
        'save/load round trip; (b) ergodic transition matrices (incl. complex '
        'pairs and negative eigenvalues, dense/sparse): eigenspectrum '
        'residuals, implied timescales, ensemble propagation; non-trivial = '
        '(a) configuration with sliding_window=False or explicit '
        'max_n_states or trim that removed a state, (b) matrix with a complex '
        'pair or a negative eigenvalue; distinct by content hash + config')
REQUIRED = ['fit_calls', 'inner_counts_calls', 'roundtrips', 'spectra_checked']
ASSUMPTIONS = ['pipeline functions themselves are decided by C03/C04/C11/C12',
               'eigenpair residual tolerance 1e-8; round trip exact']


def shards(tier):
    if tier == 'quick':
        return [dict(kind='fit', n=640, parts=8, timeout=900),
                dict(kind='spectrum', n=1600, parts=8, timeout=900),
                dict(kind='large', n=4, parts=4, timeout=900, start=900000)]
    return [dict(kind='fit', n=16000, parts=8, timeout=3400),
            dict(kind='spectrum', n=40000, parts=8, timeout=3400),
            dict(kind='large', n=48, parts=8, timeout=3400, start=900000)]


def setup(ctx):
    global tm, builders, MSM, msmmod, R, timescales, synth
    from enspara.msm import transition_matrices as _tm, builders as _b
    from enspara.msm import msm as _mm, timescales as _ts, \
        synthetic_data as _sd
    from enspara.ra.ra import RaggedArray as _R
    from vf import monitor
    tm, builders, msmmod, MSM, R = _tm, _b, _mm, _mm.MSM, _R
    timescales, synth = _ts, _sd
    ctx.inner = []

    def rec(name):
        def post(tok, a, k, res, exc):
            ctx.inner.append((name, a, dict(k)))
        return post
    ctx.h_counts = monitor.attach(tm, 'assigns_to_counts',
                                  post=rec('counts'))
    ctx.h_trim = monitor.attach(tm, 'trim_disconnected', post=rec('trim'))
    ctx.h_fit = monitor.attach(MSM, 'fit')


def teardown(ctx):
    ctx.count('fit_calls', ctx.h_fit.calls)
    ctx.count('inner_counts_calls', ctx.h_counts.calls)
    ctx.count('inner_trim_calls', ctx.h_trim.calls)


def gen_assigns(rng, small):
    ns = int(rng.integers(2, 5 if small else 8))
    # random walk on a connected chain so models are mostly ergodic
    P = rng.random((ns, ns)) + 0.05
    if rng.random() < 0.4:
        # an extra state visited one-way only (gets trimmed)
        P[:, -1] *= 0.02
        P[-1, :] = 0
        P[-1, -1] = 1
    P = P / P.sum(axis=1, keepdims=True)
    nt = int(rng.integers(1, 6))
    trajs = []
    for _ in range(nt):
        L = int(rng.integers(8, 60))
        s = int(rng.integers(0, ns - 1))
        t = [s]
        for _ in range(L - 1):
            s = int(rng.choice(ns, p=P[s]))
            t.append(s)
        trajs.append(np.array(t))
    dt = [np.int64, np.int64, np.int32, np.int16][int(rng.integers(0, 4))]
    trajs = [t.astype(dt) for t in trajs]
    return trajs, ns


def densify(M):
    return mc.dense(M).astype(float)


def run_fit(ctx, rng, idx):
    bname = ['normalize', 'transpose', 'mle'][int(rng.integers(0, 3))]
    trajs, ns = gen_assigns(rng, small=(bname == 'mle'))
    lag = int(rng.integers(1, 5))
    trim = bool(rng.random() < 0.5)
    sliding = bool(rng.random() < 0.5)
    mns = None if rng.random() < 0.5 else int(max(t.max() for t in trajs)
                                              + 1 + rng.integers(0, 3))
    by_name = bool(rng.random() < 0.5)
    if bname == 'mle' and not trim:
        trim = True       # mle needs a strongly connected matrix
    if mns is not None and not trim and bname != 'normalize':
        mns = None        # empty states would make transpose rows undefined
    method = bname if by_name else getattr(builders, bname)
    a = R([t.copy() for t in trajs]) if len({len(t) for t in trajs}) > 1 \
        or rng.random() < 0.5 else np.array(trajs)
    desc = {'builder': bname, 'by_name': by_name, 'lag': lag, 'trim': trim,
            'sliding_window': sliding, 'max_n_states': mns,
            'lens': [len(t) for t in trajs], 'n_states': ns}
    ctx.describe(desc)
    ctx.seen('configs', '%s/%s/%s/%s' % (bname, trim, sliding,
                                         mns is not None))
    # ---- explicit pipeline with the constructor's arguments ---------------
    try:
        with warnings.catch_warnings():
            warnings.simplefilter('ignore')
            Cx = tm.assigns_to_counts(a, lag_time=lag, max_n_states=mns,
                                      sliding_window=sliding)
            if Cx.sum() == 0:
                return
            if trim:
                mp, Cx = tm.trim_disconnected(Cx)
                exp_map = dict(mp.to_original)
            else:
                exp_map = {i: i for i in range(Cx.shape[0])}
            if bname != 'normalize' and not mc.is_strongly_connected(
                    densify(Cx)):
                return
            if np.any(densify(Cx).sum(axis=1) == 0) and bname != 'normalize':
                return
            eC, eT, ep = getattr(builders, bname)(Cx)
    except Exception as e:  # noqa
        ctx.count('pipeline_not_applicable')
        return
    # ---- the estimator -----------------------------------------------------
    ctx.inner = []
    try:
        with warnings.catch_warnings():
            warnings.simplefilter('ignore')
            if idx % 4 == 1:
                m = MSM.from_assignments(
                    a, lag_time=lag, method=method, trim=trim,
                    sliding_window=sliding, max_n_states=mns)
            else:
                m = MSM(lag_time=lag, method=method, trim=trim,
                        sliding_window=sliding, max_n_states=mns)
                m.fit(a)
    except Exception as e:  # noqa
        ctx.violation('msm.fit.raised[%s]' % bname, '%s: %s' % (
            type(e).__name__, str(e)[:200]))
        return
    # arguments the estimator actually passed on
    calls = [c for c in ctx.inner if c[0] == 'counts']
    if calls:
        k = calls[0][2]
        passed = {'lag_time': k.get('lag_time'),
                  'sliding_window': k.get('sliding_window'),
                  'max_n_states': k.get('max_n_states')}
        want = {'lag_time': lag, 'sliding_window': sliding,
                'max_n_states': mns}
        for key in want:
            if passed[key] != want[key]:
                ctx.violation('msm.fit.drops-argument.%s' % key,
                              'constructed with %s=%r but counting was called '
                              'with %r' % (key, want[key], passed[key]))
    n_trim_calls = len([c for c in ctx.inner if c[0] == 'trim'])
    if (n_trim_calls > 0) != trim:
        ctx.violation('msm.fit.drops-argument.trim',
                      'trim=%s but trim_disconnected called %d times' % (
                          trim, n_trim_calls))
    for nm, got, exp in (('tcounts_', m.tcounts_, eC), ('tprobs_', m.tprobs_, eT)):
        g, e = densify(got), densify(exp)
        if g.shape != e.shape or not np.array_equal(g, e):
            ctx.violation('msm.fit.differs-from-pipeline.%s' % nm,
                          '%s of the fitted model differs from the function '
                          'pipeline (shapes %s vs %s)' % (nm, g.shape, e.shape))
    if (m.eq_probs_ is None) != (ep is None) or (
            ep is not None and not np.array_equal(np.asarray(m.eq_probs_),
                                                  np.asarray(ep))):
        ctx.violation('msm.fit.differs-from-pipeline.eq_probs_',
                      'populations differ from the pipeline')
    if dict(m.mapping_.to_original) != exp_map:
        ctx.violation('msm.fit.differs-from-pipeline.mapping_',
                      'mapping %s vs %s' % (m.mapping_.to_original, exp_map))
    if m.n_states_ != densify(eT).shape[0]:
        ctx.violation('msm.n_states', '%s' % m.n_states_)
    # ---- the constructor's parameters are not rewritten by fit, and a
    # second fit of the same object is a fresh fit ----------------------------
    if (m.lag_time, m.trim, m.sliding_window, m.max_n_states) != (
            lag, trim, sliding, mns):
        ctx.violation('msm.fit.rewrites-parameter',
                      'after fit: lag_time=%r trim=%r sliding_window=%r '
                      'max_n_states=%r (constructed with %r %r %r %r)' % (
                          m.lag_time, m.trim, m.sliding_window,
                          m.max_n_states, lag, trim, sliding, mns))
    if idx % 3 == 0 and bname != 'mle':
        trajs2, _ = gen_assigns(rng, small=False)
        a2 = R([t.copy() for t in trajs2])
        try:
            with warnings.catch_warnings():
                warnings.simplefilter('ignore')
                C2 = tm.assigns_to_counts(a2, lag_time=lag, max_n_states=mns,
                                          sliding_window=sliding)
                if trim:
                    _, C2 = tm.trim_disconnected(C2)
                ok2 = C2.sum() > 0 and (bname == 'normalize' or (
                    mc.is_strongly_connected(densify(C2)) and not np.any(
                        densify(C2).sum(axis=1) == 0)))
                if ok2:
                    e2C, e2T, e2p = getattr(builders, bname)(C2)
                    m.fit(a2)
                    ctx.count('refits_checked')
                    if densify(m.tcounts_).shape != densify(e2C).shape or \
                            not np.array_equal(densify(m.tcounts_),
                                               densify(e2C)) or \
                            not np.array_equal(densify(m.tprobs_),
                                               densify(e2T)):
                        ctx.violation(
                            'msm.refit.differs-from-pipeline',
                            'second fit of the same estimator (%d states '
                            'after %d) differs from the function pipeline '
                            'on the second data set' % (
                                densify(e2C).shape[0], densify(eC).shape[0]))
        except Exception as e:  # noqa
            if mns is None or int(a2.max()) < mns:
                ctx.violation('msm.refit.raised', '%s: %s' % (
                    type(e).__name__, str(e)[:200]))
        # refit on the first data set again for the round trip below
        try:
            with warnings.catch_warnings():
                warnings.simplefilter('ignore')
                m.fit(a)
        except Exception:  # noqa
            return
    # ---- save / load round trip ------------------------------------------
    tmp = tempfile.mkdtemp(prefix='vf-c16-', dir=os.environ.get('VF_RUNDIR'))
    try:
        path = os.path.join(tmp, 'model')
        if idx % 4 == 1:
            # an earlier, different model was saved under the same path: the
            # second save either refuses or replaces it - what is loaded
            # afterwards is never the earlier model
            try:
                with warnings.catch_warnings():
                    warnings.simplefilter('ignore')
                    other = MSM(lag_time=lag + 1, method=builders.normalize,
                                trim=False)
                    other.fit(a)
                    other.save(path)
                ctx.count('saves_onto_existing_model')
            except Exception:  # noqa
                shutil.rmtree(path, ignore_errors=True)
        try:
            m.save(path)
        except (FileExistsError, OSError):
            ctx.count('save_refused_existing_path')
            shutil.rmtree(path, ignore_errors=True)
            m.save(path)
        m2 = MSM.load(path)
        ctx.count('roundtrips')
        if m2.lag_time != m.lag_time or m2.trim != m.trim or \
                m2.sliding_window != m.sliding_window or \
                m2.method is not m.method:
            ctx.violation('msm.roundtrip.config',
                          'config %s -> %s' % (m.config, m2.config))
        if dict(m2.mapping_.to_original) != dict(m.mapping_.to_original):
            ctx.violation('msm.roundtrip.mapping', 'mapping changed')
        if not np.array_equal(densify(m2.tcounts_), densify(m.tcounts_)):
            ctx.violation('msm.roundtrip.tcounts', 'counts changed, max diff '
                          '%.3g' % np.abs(densify(m2.tcounts_) -
                                          densify(m.tcounts_)).max())
        if not np.array_equal(densify(m2.tprobs_), densify(m.tprobs_)):
            ctx.violation('msm.roundtrip.tprobs', 'probabilities changed, max '
                          'diff %.3g' % np.abs(densify(m2.tprobs_) -
                                               densify(m.tprobs_)).max())
        if not np.array_equal(np.asarray(m2.eq_probs_),
                              np.asarray(m.eq_probs_)):
            ctx.violation('msm.roundtrip.eq_probs', 'populations changed')
        try:
            if not (m == m2):
                ctx.violation('msm.roundtrip.not-equal', 'm != load(save(m))')
        except Exception as e:  # noqa
            ctx.violation('msm.roundtrip.eq-raised', '%s: %s' % (
                type(e).__name__, e))
    except Exception as e:  # noqa
        ctx.violation('msm.roundtrip.raised', '%s: %s' % (
            type(e).__name__, str(e)[:300]))
    finally:
        shutil.rmtree(tmp, ignore_errors=True)
    trimmed_something = trim and len(exp_map) < (
        mns if mns is not None else int(max(t.max() for t in trajs)) + 1)
    if (not sliding) or mns is not None or trimmed_something:
        ctx.nontriv('fit', tuple(int(x) for t in trajs for x in t),
                    tuple(sorted(desc.items(), key=repr)))
    if idx % 200 == 0:
        ctx.sample(desc)


def run_spectrum(ctx, rng, idx):
    from vf.monitor import Frozen
    T, kind = mc.irreducible_chain(rng, nmin=3, nmax=14)
    n = len(T)
    if rng.random() < 0.3:
        # rotation-like block: complex eigenvalue pairs / negative eigenvalues
        A = np.zeros((n, n))
        for i in range(n):
            A[i, (i + 1) % n] = 0.8
            A[i, i] = 0.1
            A[i, (i + 2) % n] += 0.1
        T = 0.7 * A + 0.3 * T
        T = T / T.sum(axis=1, keepdims=True)
        kind += '+rotation'
    if rng.random() < 0.2:
        # two-cycle flavour: strongly negative eigenvalue
        B = np.zeros((n, n))
        for i in range(n):
            B[i, (i + 1) % n] = 0.5
            B[i, (i - 1) % n] += 0.5
        T = 0.85 * B + 0.15 * T
        T = T / T.sum(axis=1, keepdims=True)
        kind += '+alternating'
    cname = ['ndarray', 'csr', 'coo', 'csc'][int(rng.integers(0, 4))]
    Tin = mc.to_container(T, cname, rng)
    desc = {'n': n, 'kind': kind, 'container': cname,
            'T': T if n <= 6 else 'elided'}
    ctx.describe(desc)
    true_vals = np.linalg.eigvals(T.T)
    has_complex = bool(np.any(np.abs(true_vals.imag) > 1e-9))
    has_neg = bool(np.any(true_vals.real < -1e-9))
    n_eigs = None if rng.random() < 0.5 else int(rng.integers(2, n + 1))
    fz = Frozen(Tin)
    try:
        vals, vecs = tm.eigenspectrum(Tin, n_eigs=n_eigs)
    except Exception as e:  # noqa
        ctx.crash('spectrum.raised', e)
        return
    ctx.count('spectra_checked')
    if fz.changed():
        ctx.violation('spectrum.mutates-input', cname)
    k = n if n_eigs is None else n_eigs
    if vals.shape != (k,) or vecs.shape != (n, k):
        ctx.violation('spectrum.shape', 'vals %s vecs %s for n=%d n_eigs=%s'
                      % (vals.shape, vecs.shape, n, n_eigs))
        return
    if np.iscomplexobj(vals) or np.iscomplexobj(vecs):
        ctx.violation('spectrum.not-real', 'complex output')
    if np.any(np.diff(vals) > 1e-10):
        ctx.violation('spectrum.not-descending', 'eigenvalues %s' % vals)
    if abs(vals[0] - 1) > 1e-9:
        ctx.violation('spectrum.leading-not-one', 'leading %.12g' % vals[0])
    v0 = vecs[:, 0]
    if abs(v0.sum() - 1) > 1e-9 or np.abs(v0 @ T - v0).max() > 1e-8 or \
            np.any(v0 < -1e-10):
        ctx.violation('spectrum.leading-vector-not-stationary',
                      'sum %.12g residual %.3g' % (
                          v0.sum(), np.abs(v0 @ T - v0).max()))
    # sorted real parts of the true spectrum
    tv = np.sort(true_vals.real)[::-1][:k]
    if np.abs(tv - vals).max() > 1e-8:
        ctx.violation('spectrum.values-wrong',
                      'returned %s, real parts of the true spectrum %s' % (
                          vals, tv))
    # every returned pair that belongs to a real simple eigenvalue is a pair
    real_true = true_vals[np.abs(true_vals.imag) < 1e-9].real
    for j in range(k):
        lam, v = vals[j], vecs[:, j]
        iso = np.sort(np.abs(true_vals - lam))
        if np.min(np.abs(real_true - lam)) < 1e-9 and iso[1] > 1e-6:
            r = np.abs(v @ T - lam * v).max() / max(np.abs(v).max(), 1e-300)
            if r > 1e-7:
                ctx.violation('spectrum.eigenpair-residual',
                              'pair %d (lambda %.9g): residual %.3g' % (
                                  j, lam, r))
                break
    # right eigenvectors
    if idx % 3 == 0:
        try:
            rv, rvec = tm.eigenspectrum(Tin, n_eigs=n_eigs, left=False)
            if np.abs(rv - vals).max() > 1e-8:
                ctx.violation('spectrum.right-values', 'right and left '
                              'eigenvalues differ')
            for j in range(k):
                lam, v = rv[j], rvec[:, j]
                iso = np.sort(np.abs(true_vals - lam))
                if np.min(np.abs(real_true - lam)) < 1e-9 and iso[1] > 1e-6:
                    r = np.abs(T @ v - lam * v).max() / max(
                        np.abs(v).max(), 1e-300)
                    if r > 1e-7:
                        ctx.violation('spectrum.right-eigenpair-residual',
                                      'pair %d: residual %.3g' % (j, r))
                        break
            ctx.count('right_spectra_checked')
        except Exception as e:  # noqa
            ctx.crash('spectrum.right.raised', e)
    # eq_probs helper
    try:
        p = tm.eq_probs(Tin)
        if np.abs(p - v0).max() > 1e-10:
            ctx.violation('spectrum.eq_probs', 'eq_probs != first eigenvector')
    except Exception as e:  # noqa
        ctx.crash('spectrum.eq_probs.raised', e)
    # ---- ensemble propagation ---------------------------------------------
    p0 = rng.random(n)
    p0 /= p0.sum()
    steps = int(rng.integers(1, 8))
    fz = Frozen(Tin, p0)
    try:
        pend, obs = synth.synthetic_ensemble(Tin, p0, steps)
        exp = [p0]
        for _ in range(steps - 1):
            exp.append(exp[-1] @ T)
        exp = np.array(exp)
        ctx.count('ensembles_checked')
        if obs.shape != exp.shape or np.abs(obs - exp).max() > 1e-12 or \
                np.abs(pend - exp[-1]).max() > 1e-12:
            ctx.violation('ensemble.wrong', 'propagation differs from p0 T^k')
        if fz.changed():
            ctx.violation('ensemble.mutates-input', '%s' % fz.changed())
        ob = rng.random(n)
        p2, o2 = synth.synthetic_ensemble(Tin, p0, steps,
                                          observable_per_state=ob)
        if np.abs(np.asarray(o2) - exp @ ob).max() > 1e-12:
            ctx.violation('ensemble.observable-wrong', 'observable trace')
        if np.abs(np.asarray(p2) - exp[-1]).max() > 1e-12:
            ctx.violation('ensemble.observable-final-populations',
                          'with observable_per_state the returned final '
                          'populations are not p0 T^(n_steps-1) (as without)')
    except Exception as e:  # noqa
        ctx.crash('ensemble.raised', e)
    if has_complex or has_neg:
        ctx.nontriv('spec', T.tobytes(), cname, n_eigs)
    ctx.seen('spectrum_kinds', '%s/complex=%s/neg=%s' % (
        kind, has_complex, has_neg))
    if idx % 400 == 0:
        ctx.sample(dict(desc, eigenvalues=vals))


def run_timescales(ctx, rng, idx):
    """implied_timescales == -lag / log(lambda) of the pipeline's matrix."""
    trajs, ns = gen_assigns(rng, small=False)
    a = R([t.copy() for t in trajs])
    # lag times in any order, possibly repeated, beyond single digits, as
    # list / tuple / array / range: row i belongs to lag_times[i]
    r = rng.random()
    if r < 0.3:
        lags = sorted({int(x) for x in rng.integers(1, 5, size=2)})
    elif r < 0.45:
        lo = int(rng.integers(1, 4))
        lags = range(lo, lo + int(rng.integers(1, 4)))
    else:
        lags = [int(x) for x in rng.integers(1, 13, size=int(
            rng.integers(1, 5)))]
        if rng.random() < 0.5:
            lags = sorted(lags)
        lags = [list, tuple, np.array][int(rng.integers(0, 3))](lags)
    ctx.seen('lag_time_forms', type(lags).__name__)
    bname = ['normalize', 'transpose'][int(rng.integers(0, 2))]
    method = getattr(builders, bname)
    sliding = bool(rng.random() < 0.5)
    trim = True
    nst = int(a.max()) + 1
    n_times = int(rng.integers(1, max(2, nst - 1)))
    try:
        with warnings.catch_warnings():
            warnings.simplefilter('ignore')
            exp = []
            for lag in [int(x) for x in lags]:
                C = tm.assigns_to_counts(a, lag_time=lag, max_n_states=nst,
                                         sliding_window=sliding)
                mp, C = tm.trim_disconnected(C)
                _, T, _ = method(C)
                Td = densify(T)
                if len(Td) < n_times + 1 or not mc.is_strongly_connected(Td):
                    return
                lam = np.sort(np.linalg.eigvals(Td.T).real)[::-1]
                sel = lam[1:n_times + 1]
                row = np.where(sel > 0, -lag / np.log(np.where(
                    sel > 0, sel, 1.0)), np.nan)
                # an eigenvalue that is zero up to rounding has no defined
                # sign: its timescale (0, tiny or NaN) is not compared
                row[np.abs(sel) < 1e-10] = np.inf
                exp.append(row)
            got = timescales.implied_timescales(
                a, lags, method, n_times=n_times, sliding_window=sliding,
                trim=trim)
    except Exception as e:  # noqa
        ctx.count('timescales_not_applicable')
        return
    ctx.count('timescales_checked')
    exp = np.array(exp)
    got = np.asarray(got, dtype=float)
    if got.shape != exp.shape:
        ctx.violation('timescales.shape', '%s vs %s' % (got.shape, exp.shape))
        return
    amb = np.isinf(exp)
    ctx.count('ambiguous_zero_eigenvalues', int(amb.sum()))
    nan_ok = np.array_equal(np.isnan(got)[~amb], np.isnan(exp)[~amb])
    m = ~np.isnan(exp) & ~np.isnan(got) & ~amb
    # eigenvalues close to 1 or 0 amplify rounding: relative tolerance 1e-6
    if not nan_ok or np.any(np.abs(got[m] - exp[m]) > 1e-6 * (
            1 + np.abs(exp[m]))):
        ctx.violation('timescales.wrong',
                      'implied timescales %s, expected -lag/log(lambda) = %s'
                      % (got.tolist(), exp.tolist()))


def run_large(ctx, rng, idx):
    """A model with >= 1000 states from a slowly mixing chain: counts are
    sparse, so the populations of the row-normalised model come from the
    sparse (ARPACK) eigen-solver."""
    C = mc.large_metastable_counts(rng)
    n = C.shape[0]
    rs = np.asarray(C.sum(axis=1)).ravel().astype(float)
    cum = []
    Cl = C.tolil()
    for i in range(n):
        cum.append((np.array(Cl.rows[i]), np.cumsum(
            np.array(Cl.data[i], dtype=float)) / rs[i]))
    trajs = []
    for _ in range(int(rng.integers(1, 4))):
        L = int(rng.integers(40000, 70000))
        u = rng.random(L)
        t = np.empty(L, dtype=np.int32)
        st = int(rng.integers(0, n))
        for k_ in range(L):
            t[k_] = st
            nb, cp = cum[st]
            st = int(nb[min(np.searchsorted(cp, u[k_]), len(nb) - 1)])
        trajs.append(t)
    a = R(trajs)
    ctx.describe({'kind': 'large', 'n_states': n,
                  'frames': [len(t) for t in trajs]})
    try:
        with warnings.catch_warnings():
            warnings.simplefilter('ignore')
            m = MSM(lag_time=1, method=builders.normalize, trim=True)
            m.fit(a)
            Cc = tm.assigns_to_counts(a, lag_time=1)
            mp, Cc = tm.trim_disconnected(Cc)
            _, Tp, pp = builders.normalize(Cc)
    except Exception as e:  # noqa
        ctx.crash('msm.large.raised', e)
        return
    ctx.count('large_models_fitted')
    Td = densify(m.tprobs_)
    pi = np.asarray(m.eq_probs_, dtype=float)
    if len(Td) < 1000:
        ctx.count('large_models_below_threshold')
    if not np.array_equal(Td, densify(Tp)):
        ctx.violation('msm.fit.differs-from-pipeline',
                      'large model: tprobs_ differ from the pipeline')
    w, V = np.linalg.eig(Td.T)
    k0 = int(np.argmax(w.real))
    ref = np.abs(V[:, k0].real)
    ref /= ref.sum()
    res = float(np.abs(pi @ Td - pi).max())
    if pi.shape != ref.shape or abs(pi.sum() - 1) > 1e-9 or \
            np.any(pi < -1e-12) or res > 1e-10 or \
            np.abs(pi - ref).max() > 1e-8:
        ctx.violation('msm.large.populations-not-stationary',
                      '%d states: |pi T - pi| = %.3g, max |pi - dense '
                      'reference| = %.3g, min pi %.3g' % (
                          len(Td), res, np.abs(pi - ref).max()
                          if pi.shape == ref.shape else -1, pi.min()))
    if np.abs(pi - np.asarray(pp, dtype=float)).max() > 1e-8:
        ctx.violation('msm.fit.differs-from-pipeline',
                      'large model: eq_probs_ differ from the pipeline by '
                      '%.3g' % np.abs(pi - np.asarray(pp)).max())
    ctx.nontriv('large', n, tuple(len(t) for t in trajs))
    run_large_spectrum(ctx, rng)


def run_large_spectrum(ctx, rng):
    """Leading eigenvalues of a sparse reversible chain with >= 1000 states
    (ARPACK path) that also has an eigenvalue close to -1: a strongly coupled
    pair of states hanging off the first cluster.  'Descending order' means
    by value, so the negative eigenvalue must not displace a positive one."""
    Cs = mc.large_metastable_counts(rng, symmetric=True).tolil()
    n0 = Cs.shape[0]
    C = sp.lil_matrix((n0 + 2, n0 + 2), dtype=float)
    C[:n0, :n0] = Cs
    big = float(rng.integers(2000, 20000))
    C[n0, n0 + 1] = C[n0 + 1, n0] = big
    C[n0, 0] = C[0, n0] = float(rng.integers(1, 6))
    C = C.tocsr()
    rs = np.asarray(C.sum(axis=1)).ravel()
    T = sp.diags(1.0 / rs) @ C
    T = [sp.csr_matrix, sp.csc_matrix][int(rng.integers(0, 2))](T)
    d = 1.0 / np.sqrt(rs)
    S = (sp.diags(d) @ C @ sp.diags(d)).toarray()
    ref = np.sort(np.linalg.eigvalsh((S + S.T) / 2))[::-1]
    npos = int(np.sum(ref > 0.9))
    k = int(rng.integers(2, npos + 3))
    ctx.describe({'kind': 'large-spectrum', 'n_states': n0 + 2, 'n_eigs': k,
                  'most_negative_eigenvalue': float(ref[-1])})
    try:
        with warnings.catch_warnings():
            warnings.simplefilter('ignore')
            vals, vecs = tm.eigenspectrum(T, n_eigs=k)
    except Exception as e:  # noqa
        ctx.crash('spectrum.large.raised', e)
        return
    ctx.count('large_spectra_checked')
    vals = np.asarray(vals)
    if vals.shape != (k,) or np.abs(np.imag(vals)).max() > 1e-9 or \
            np.abs(np.real(vals) - ref[:k]).max() > 1e-7:
        ctx.violation('spectrum.large.not-the-leading-eigenvalues',
                      '%d states, n_eigs=%d: got %s, the %d largest are %s '
                      '(smallest eigenvalue %.6f)' % (
                          n0 + 2, k, np.real(vals).tolist(), k,
                          ref[:k].tolist(), ref[-1]))
        return
    v0 = np.real(np.asarray(vecs)[:, 0])
    if np.abs(v0 - rs / rs.sum()).max() > 1e-8:
        ctx.violation('spectrum.large.first-vector-not-stationary',
                      'max deviation %.3g' % np.abs(v0 - rs / rs.sum()).max())


def run_case(ctx, kind, rng, idx):
    if kind == 'large':
        return run_large(ctx, rng, idx)
    if kind == 'fit':
        run_fit(ctx, rng, idx)
        if idx % 3 == 0:
            run_timescales(ctx, rng, idx)
    else:
        run_spectrum(ctx, rng, idx)
