"""C14 - MPI-striped clustering and reductions equal their serial counterparts.

enspara's MPI code runs unmodified on the thread-per-rank stand-in
communicator (vf/mpisim), which matches collectives across ranks, injects
seeded delays and logs arrival orders."""
import os
import shutil
import tempfile
import traceback

import numpy as np

from vf import clustercommon as cc

RULE = ('cases = simulated worlds of 1-8 (thorough 16) ranks x trajectory '
        'length vectors (equal, unequal, 1-frame trajectories, rank-locally '
        'equal but globally unequal, one trajectory per rank) x tie-free data; '
        'per world: kcenters(mpi_mode) + library reassembly vs serial, '
        'hybrid(mpi_mode), warm-start kmedoids, the striped ops (max, mean, '
        'gather, randind, distribute_frame, index conversion) and striped '
        'h5/npy loading with strides; every collective is matched across '
        'ranks and its arrival order logged; non-trivial = world of >=2 ranks '
        'in which >=2 different ranks owned a chosen center and some rank '
        'owned a single trajectory or the lengths were unequal; distinct by '
        '(world size, lengths, data hash)')
REQUIRED = ['worlds_run', 'collectives_matched', 'serial_comparisons']
ASSUMPTIONS = ['the stand-in communicator follows mpi4py semantics for the '
               'calls enspara uses (pickled lower-case collectives, in-place '
               'Bcast, rendezvous); no real MPI library exists here',
               'tie-free data (random floats) for bit-for-bit equality with '
               'the serial run',
               'every rank owns at least one trajectory / file (with fewer '
               'files than ranks load_npy_as_striped raises UnboundLocalError '
               'on the idle rank - noted, outside the worlds generated)']


def shards(tier):
    if tier == 'quick':
        return [dict(kind='world', n=160, parts=8, timeout=1200,
                     env={'OMP_NUM_THREADS': 1})]
    return [dict(kind='world', n=4000, parts=8, timeout=3400,
                 env={'OMP_NUM_THREADS': 1})]


def setup(ctx):
    global MPI, mpi, kcenters, kmedoids, hybrid, util, ops, mio, ra, R
    from mpi4py import MPI as _MPI
    from enspara import mpi as _mpi
    from enspara.cluster import kcenters as _kc, kmedoids as _km, \
        hybrid as _hy, util as _u
    from enspara.mpi import ops as _ops, io as _io
    from enspara.ra import ra as _ra
    MPI, mpi, kcenters, kmedoids, hybrid, util = _MPI, _mpi, _kc, _km, _hy, _u
    ops, mio, ra, R = _ops, _io, _ra, _ra.RaggedArray
    assert _mpi.mpi4py_installed and _mpi.comm is _MPI.COMM_WORLD
    _serialise_pytables()
    ctx.tmp = tempfile.mkdtemp(prefix='vf-c14-',
                               dir=os.environ.get('VF_RUNDIR'))
    ctx.tiers = ctx.spec.get('tier')


def _serialise_pytables():
    """Ranks are threads of one process here but processes under real MPI.
    PyTables keeps a process-wide registry of open files and is not
    thread-safe (open_file walks the registry while another thread's File is
    half constructed / half closed), so one file handle at a time: the lock
    is taken in open_file and released in File.close.  No collective is
    executed while enspara holds a file open, so this cannot deadlock."""
    import threading
    import tables
    if getattr(tables, '_vf_serialised', False):
        return
    lock = threading.RLock()
    orig_open, orig_close = tables.open_file, tables.File.close

    def open_file(*a, **k):
        lock.acquire()
        try:
            h = orig_open(*a, **k)
        except BaseException:
            lock.release()
            raise
        h._vf_locked = True
        return h

    def close(self):
        held = self.__dict__.get('_vf_locked', False)
        try:
            return orig_close(self)
        finally:
            if held:
                self.__dict__.pop('_vf_locked', None)
                lock.release()
    tables.open_file = open_file
    tables.File.close = close
    tables._vf_serialised = True


def teardown(ctx):
    shutil.rmtree(ctx.tmp, ignore_errors=True)


def gen_lengths(rng, size):
    kind = ['equal', 'unequal', 'ones', 'local-equal', 'one-per-rank'][
        int(rng.integers(0, 5))]
    if kind == 'one-per-rank':
        lens = [int(x) for x in rng.integers(2, 12, size=size)]
    else:
        ntraj = int(rng.integers(size, size * 3 + 2))
        if kind == 'equal':
            lens = [int(rng.integers(2, 10))] * ntraj
        elif kind == 'unequal':
            lens = [int(x) for x in rng.integers(1, 12, size=ntraj)]
        elif kind == 'ones':
            lens = [int(x) for x in rng.integers(1, 8, size=ntraj)]
            for i in rng.choice(ntraj, size=max(1, ntraj // 3),
                                replace=False):
                lens[int(i)] = 1
        else:
            # every rank's own trajectories equally long, globally unequal
            per_rank = [int(x) for x in rng.integers(2, 9, size=size)]
            if size > 1 and len(set(per_rank)) == 1:
                per_rank[0] += 1
            lens = [per_rank[i % size] for i in range(ntraj)]
    return lens, kind


def stripe(arrs, rank, size):
    return [arrs[i] for i in range(rank, len(arrs), size)]


def world_errors(ctx, errors, what):
    """Classify rank exceptions; returns True if the world failed."""
    bad = [(r, e) for r, e in enumerate(errors) if e is not None]
    if not bad:
        return False
    prim = [(r, e) for r, e in bad if type(e).__name__ not in (
        'RankDied', 'WorldAborted')]
    r, e = (prim or bad)[0]
    tb = ''.join(traceback.format_exception(type(e), e, e.__traceback__))
    fn = [l for l in tb.splitlines() if 'enspara' in l and 'File' in l]
    where = fn[-1].strip().split(',')[-1].strip() if fn else ''
    if type(e).__name__ == 'CollectiveMismatch':
        key = 'mpi.collective-mismatch'
    else:
        key = 'mpi.%s.raised.%s' % (what, type(e).__name__)
    ctx.violation(key, 'rank %d during %s: %s: %s [%s]' % (
        r, what, type(e).__name__, str(e)[:200], where),
        {'traceback': tb[-2500:]})
    return True


def log_world(ctx, world, errors=()):
    ctx.count('collectives_matched', len(world.log))
    for seq, kind, root, order in world.log:
        if len(order) > 1:
            ctx.seen('arrival_orders', '%d:%s' % (len(order), ''.join(
                '%x' % r for r in order)))
    if world.watchdog_fired:
        ctx.violation('harness.watchdog', 'simulated world watchdog fired')
    # every rank issued the same sequence of collectives
    seqs = world.per_rank_kinds
    if not any(e is not None for e in errors) and \
            any(s != seqs[0] for s in seqs[1:]):
        ctx.violation('mpi.collective-sequence-differs',
                      'ranks issued different collective sequences')


def run_case(ctx, kind, rng, idx):
    maxw = 8 if ctx.spec.get('tier') == 'quick' else 16
    size = int(rng.integers(1, maxw + 1))
    lens, lkind = gen_lengths(rng, size)
    d = int(rng.integers(1, 5))
    ntraj = len(lens)
    trajs = [rng.normal(size=(L, d)) for L in lens]
    X = np.concatenate(trajs)
    n = len(X)
    k = int(rng.integers(1, min(n, 8) + 1))
    seed = int(rng.integers(0, 2 ** 31))
    wseed = int(rng.integers(0, 2 ** 31))
    desc = {'world': size, 'lengths': lens, 'lengths_kind': lkind, 'dim': d,
            'k': k, 'seed': seed}
    ctx.describe(desc)
    ctx.seen('world_sizes', size)
    ctx.seen('length_kinds', lkind)
    lens_arg = np.array(lens) if rng.random() < 0.5 else list(lens)
    local = [np.concatenate(stripe(trajs, r, size)) for r in range(size)]
    serial = kcenters.kcenters(X, 'euclidean', n_clusters=k)
    s_ci = [int(i) for i in serial.center_indices]
    starts = np.cumsum([0] + lens[:-1])
    owner_of = lambda g: int(np.searchsorted(starts, g, side='right') - 1) \
        % size   # noqa
    owners = {owner_of(g) for g in s_ci}
    single = any(len(range(r, ntraj, size)) == 1 for r in range(size))

    # ---------------- (a) distributed k-centers + reassembly ---------------
    def kc_rank(r):
        res = kcenters.kcenters(local[r], 'euclidean', n_clusters=k,
                                mpi_mode=True)
        dists = ops.assemble_striped_ragged_array(res.distances, lens_arg)
        assigs = ops.assemble_striped_ragged_array(res.assignments, lens_arg)
        ci = ops.convert_local_indices(res.center_indices, lens_arg)
        return ([int(i) for i in ci], np.asarray(dists), np.asarray(assigs),
                [np.asarray(c) for c in res.centers],
                [tuple(int(x) for x in p) for p in res.center_indices])
    world, results, errors = MPI.run_world(size, kc_rank, seed=wseed)
    ctx.count('worlds_run')
    log_world(ctx, world, errors)
    if not world_errors(ctx, errors, 'kcenters+reassembly[%s]' % lkind):
        ctx.count('serial_comparisons')
        r0 = results[0]
        for r in range(1, size):
            rr = results[r]
            if rr[0] != r0[0] or not np.array_equal(rr[1], r0[1]) or \
                    not np.array_equal(rr[2], r0[2]):
                ctx.violation('mpi.kcenters.ranks-disagree',
                              'rank %d reassembled a different answer than '
                              'rank 0' % r)
                break
        if r0[0] != s_ci:
            ctx.violation('mpi.kcenters.centers-differ-from-serial',
                          'distributed centers %s, serial %s (world %d, '
                          'lengths %s)' % (r0[0], s_ci, size, lens))
        elif not np.array_equal(r0[2], np.asarray(serial.assignments)):
            ctx.violation('mpi.kcenters.labels-differ-from-serial',
                          'reassembled labels differ from serial labels')
        elif not np.array_equal(r0[1], np.asarray(serial.distances)):
            ctx.violation('mpi.kcenters.distances-differ-from-serial',
                          'reassembled distances differ from serial '
                          'distances (max %.3g)' % np.abs(
                              r0[1] - serial.distances).max())
        if r0[2].dtype != np.asarray(serial.assignments).dtype:
            ctx.violation('mpi.reassembly.dtype', 'labels came back as %s' %
                          r0[2].dtype)

    # ---------------- (b) distributed hybrid ---------------------------------
    iters = int(rng.integers(1, 4))

    def hy_rank(r):
        res = hybrid.hybrid(local[r], 'euclidean', n_iters=iters,
                            n_clusters=k, random_state=seed, mpi_mode=True)
        dists = ops.assemble_striped_ragged_array(res.distances, lens_arg)
        assigs = ops.assemble_striped_ragged_array(res.assignments, lens_arg)
        ci = ops.convert_local_indices(res.center_indices, lens_arg)
        return ([int(i) for i in ci], np.asarray(dists), np.asarray(assigs),
                [np.asarray(c) for c in res.centers])
    if size > 1 or idx % 2 == 0:
        world, results, errors = MPI.run_world(size, hy_rank, seed=wseed + 1)
        ctx.count('worlds_run')
        log_world(ctx, world, errors)
        if not world_errors(ctx, errors, 'hybrid[%s]' % lkind):
            check_distributed_medoids(ctx, X, results, serial, k, size,
                                      'hybrid')

    # ---------------- (c) warm-start k-medoids through ctr_ids_mpi -----------
    if size > 1:
        sa = np.asarray(serial.assignments)
        sd = np.asarray(serial.distances)
        la = R(sa, lengths=lens)
        ld = R(sd, lengths=lens)
        pairs = rng.random() < 0.5
        if pairs:
            cinds = [[int(np.searchsorted(starts, g, side='right') - 1),
                      int(g - starts[np.searchsorted(starts, g, side='right')
                                     - 1])] for g in s_ci]
        else:
            cinds = list(s_ci)

        def km_rank(r):
            rows = list(range(r, ntraj, size))
            a_loc = np.concatenate([np.asarray(la[i]) for i in rows]
                                   ).astype(int)
            d_loc = np.concatenate([np.asarray(ld[i]) for i in rows]
                                   ).astype(float)
            res = kmedoids.kmedoids(
                local[r], 'euclidean', cluster_center_inds=list(cinds),
                assignments=a_loc, distances=d_loc, X_lengths=list(lens),
                n_iters=iters, random_state=seed)
            dists = ops.assemble_striped_ragged_array(res.distances, lens_arg)
            assigs = ops.assemble_striped_ragged_array(res.assignments,
                                                       lens_arg)
            ci = ops.convert_local_indices(res.center_indices, lens_arg)
            return ([int(i) for i in ci], np.asarray(dists),
                    np.asarray(assigs), [np.asarray(c) for c in res.centers])
        world, results, errors = MPI.run_world(size, km_rank, seed=wseed + 2)
        ctx.count('worlds_run')
        log_world(ctx, world, errors)
        if not world_errors(ctx, errors, 'kmedoids-warm[%s]' % lkind):
            check_distributed_medoids(ctx, X, results, serial, k, size,
                                      'kmedoids-warm')

    # ---------------- (d) striped operations ------------------------------------
    vals = [rng.normal(size=int(rng.integers(1, 9))) for _ in range(size)]
    # strictly positive values (the gather is meant for lengths) in any
    # element type, one- or two-dimensional
    gdt = [np.int64, np.int64, np.int32, np.int16, np.float64, np.float32][
        int(rng.integers(0, 6))]
    glob_len = np.array([int(x) for x in rng.integers(1, 50, size=ntraj)])
    if np.issubdtype(gdt, np.floating):
        glob_len = glob_len + rng.integers(1, 4, size=ntraj) / 4.0
    glob_len = glob_len.astype(gdt)
    if rng.random() < 0.25:
        glob_len = np.stack([glob_len, glob_len + 1], axis=1)
    rseeds = [int(x) for x in rng.integers(0, 2 ** 31, size=6)]
    frame_owner = int(rng.integers(0, size))
    frame_idx = int(rng.integers(0, len(local[frame_owner])))

    def ops_rank(r):
        out = {}
        out['max'] = ops.striped_array_max(vals[r])
        out['mean'] = ops.striped_array_mean(vals[r])
        out['gather'] = ops.assemble_striped_array(glob_len[r::size])
        out['randind'] = [tuple(int(x) for x in ops.randind(vals[r], s))
                          for s in rseeds]
        out['frame'] = np.array(ops.distribute_frame(
            local[r], world_index=frame_idx, owner_rank=frame_owner))
        out['conv'] = [int(x) for x in ops.convert_local_indices(
            [(frame_owner, frame_idx)], lens_arg)]
        return out
    world, results, errors = MPI.run_world(size, ops_rank, seed=wseed + 3)
    ctx.count('worlds_run')
    log_world(ctx, world, errors)
    if not world_errors(ctx, errors, 'ops'):
        ctx.count('serial_comparisons')
        allv = np.concatenate(vals)
        nst = [len(v) for v in vals]
        # serial definition of the striped random choice
        concat = np.concatenate([np.arange(sum(nst))[r::size]
                                 for r in range(size)])
        exp_rand = []
        for s in rseeds:
            g = np.random.RandomState(s).randint(sum(nst))
            p = int(np.where(concat == g)[0][0])
            cs = np.cumsum([0] + nst)
            o = int(np.searchsorted(cs, p, side='right') - 1)
            exp_rand.append((o, p - int(cs[o])))
        gidx = [i for i in range(frame_owner, ntraj, size)]
        gpos = np.concatenate([np.arange(starts[i], starts[i] + lens[i])
                               for i in gidx])[frame_idx]
        for r, out in enumerate(results):
            if out['max'] != allv.max():
                ctx.violation('mpi.ops.max', 'rank %d: %r vs %r' % (
                    r, out['max'], allv.max()))
            if abs(out['mean'] - allv.mean()) > 1e-12:
                ctx.violation('mpi.ops.mean', 'rank %d: %r vs %r' % (
                    r, out['mean'], allv.mean()))
            if not np.array_equal(out['gather'], glob_len) or \
                    np.asarray(out['gather']).dtype != glob_len.dtype:
                ctx.violation('mpi.ops.gather', 'rank %d: striped gather %s '
                              '%s vs %s %s' % (
                                  r, np.asarray(out['gather']).dtype,
                                  np.asarray(out['gather']).tolist()[:6],
                                  glob_len.dtype, glob_len.tolist()[:6]))
            if out['randind'] != exp_rand:
                ctx.violation('mpi.ops.randind', 'rank %d: %s, serial '
                              'definition %s' % (r, out['randind'], exp_rand))
            if not np.array_equal(out['frame'], X[gpos]):
                ctx.violation('mpi.ops.distribute_frame',
                              'rank %d received a different frame' % r)
            if out['conv'] != [int(gpos)]:
                ctx.violation('mpi.ops.convert_local_indices',
                              '(%d,%d) -> %s, expected %d' % (
                                  frame_owner, frame_idx, out['conv'], gpos))
            for (o, l_) in out['randind']:
                if not (0 <= o < size and 0 <= l_ < nst[o]):
                    ctx.violation('mpi.ops.randind-range', '%s' % (
                        out['randind'],))

    # ---------------- (e) striped loading ------------------------------------------
    if idx % 2 == 0:
        striped_io(ctx, rng, size, trajs, lens, wseed)
    if idx % 40 == 7:
        striped_io_big(ctx, rng, wseed)
    if idx % 8 == 3:
        striped_io_foreign_keys(ctx, rng, size, wseed)

    if size >= 2 and len(owners) >= 2 and (single or len(set(lens)) > 1):
        ctx.nontriv(size, tuple(lens), X.tobytes())
    if idx % 40 == 0:
        ctx.sample(desc)


def check_distributed_medoids(ctx, X, results, serial, k, size, what):
    ctx.count('serial_comparisons')
    r0 = results[0]
    for r in range(1, size):
        rr = results[r]
        if rr[0] != r0[0] or not np.array_equal(rr[1], r0[1]) or \
                not np.array_equal(rr[2], r0[2]) or \
                any(not np.array_equal(a, b) for a, b in zip(rr[3], r0[3])):
            ctx.violation('mpi.%s.ranks-disagree' % what,
                          'rank %d holds a different result than rank 0' % r)
            return

    class Res:
        center_indices = r0[0]
        distances = r0[1]
        assignments = r0[2].astype(int)
        centers = r0[3]
    cc.check_result(ctx, X, 'euclidean', Res, 'mpi.%s.result' % what,
                    expect_k=k)
    c0 = cc.msq(serial.distances)
    c1 = cc.msq(r0[1])
    if c1 > c0 + 1e-9 * (1 + c0):
        ctx.violation('mpi.%s.cost-increased' % what,
                      'cost %.12g after distributed sweeps > %.12g of the '
                      'k-centers start' % (c1, c0))


def striped_io_foreign_keys(ctx, rng, size, wseed):
    """An HDF5 file that was not written by ra.save: more than ten rows
    under un-padded numbered names (arr_0 ... arr_12, as np.savez / mdtraj /
    h5py scripts produce them) or arbitrary names.  The striped loader must
    deal out the rows of the serial load of the same file."""
    import tables
    d = tempfile.mkdtemp(prefix='iokeys', dir=ctx.tmp)
    try:
        n = int(rng.integers(max(11, size), max(16, size + 4)))
        style = int(rng.integers(0, 3))
        names = ['arr_%d' % i for i in range(n)] if style == 0 else (
            ['t%d' % (i * 7 % 23) for i in range(n)] if style == 1 and n <= 23
            else ['traj-%s' % chr(ord('z') - i) if i < 26 else 'u%d' % i
                  for i in range(n)])
        rows = {nm: (np.arange(int(rng.integers(2, 9)), dtype=np.float64)
                     + 100.0 * k) for k, nm in enumerate(names)}
        fn = os.path.join(d, 'foreign.h5')
        with tables.open_file(fn, 'w') as h:
            for nm in names:
                h.create_array('/', nm, rows[nm])
        stride = int(rng.integers(1, 3))
        serial = ra.load(fn, keys=Ellipsis, stride=stride)
        srows = [np.asarray(serial[i]) for i in range(len(serial))]

        def io_rank(r):
            gl, data = mio.load_h5_as_striped(fn, stride=stride)
            return list(gl), np.asarray(data)
        world, results, errors = MPI.run_world(size, io_rank, seed=wseed + 6)
        ctx.count('worlds_run')
        ctx.count('foreign_key_files')
        log_world(ctx, world, errors)
        if world_errors(ctx, errors, 'striped-io-foreign-keys'):
            return
        for r, (gl, data) in enumerate(results):
            mine = srows[r::size]
            exp = np.concatenate(mine) if mine else np.zeros(0)
            if [int(x) for x in gl] != [len(x) for x in srows] or \
                    data.shape != exp.shape or not np.array_equal(data, exp):
                ctx.violation('mpi.io.h5.rows[foreign-keys]',
                              'rank %d of %d: striped load of a file with '
                              'keys %s... does not deal out the rows of the '
                              'serial load' % (r, size, names[:3]))
                break
    finally:
        shutil.rmtree(d, ignore_errors=True)


def striped_io_big(ctx, rng, wseed):
    """One feature file well beyond 16 MiB next to a small one, strides that
    do not divide typical block sizes: a loader that copies in blocks has to
    keep the stride phase across block boundaries."""
    d = tempfile.mkdtemp(prefix='iobig', dir=ctx.tmp)
    try:
        nbig = int(rng.integers(1_150_000, 1_600_000))
        width = 4
        big = np.arange(nbig * width, dtype=np.float32).reshape(nbig, width)
        small = -np.arange(37 * width, dtype=np.float32).reshape(37, width)
        files = [big, small] if rng.random() < 0.5 else [small, big]
        paths = []
        for i, t in enumerate(files):
            p = os.path.join(d, 'g%d.npy' % i)
            np.save(p, t)
            paths.append(p)
        stride = [3, 5, 6, 7, 2][int(rng.integers(0, 5))]
        size = int(rng.integers(1, 3))      # every rank owns a file

        def io_rank(r):
            gl, data = mio.load_npy_as_striped(paths, stride=stride)
            return list(gl), np.asarray(data)
        world, results, errors = MPI.run_world(size, io_rank, seed=wseed + 5)
        ctx.count('worlds_run')
        ctx.count('large_file_loads')
        log_world(ctx, world, errors)
        if world_errors(ctx, errors, 'striped-io-large[stride=%d]' % stride):
            return
        exp_lens = [len(t[::stride]) for t in files]
        for r, (gl, data) in enumerate(results):
            mine = [files[i][::stride] for i in range(r, len(files), size)]
            exp = np.concatenate(mine) if mine else np.zeros((0, width))
            if [int(x) for x in gl] != exp_lens:
                ctx.violation('mpi.io.npy.lengths[large-file]',
                              'rank %d: %s vs %s' % (r, list(gl), exp_lens))
            if data.shape != exp.shape or not np.array_equal(data, exp):
                nbad = int((data != exp).any(axis=1).sum()) \
                    if data.shape == exp.shape else -1
                ctx.violation('mpi.io.npy.data[large-file]',
                              'rank %d of %d, stride %d, %d-frame file: %d '
                              'loaded frames differ from file[::stride]' % (
                                  r, size, stride, nbig, nbad))
    finally:
        shutil.rmtree(d, ignore_errors=True)


def striped_io(ctx, rng, size, trajs, lens, wseed):
    d = tempfile.mkdtemp(prefix='io', dir=ctx.tmp)
    try:
        stride = int(rng.integers(1, 5))
        h5 = os.path.join(d, 'feat.h5')
        rows = [t.copy() for t in trajs]
        ra.save(h5, R(rows))
        npys = []
        for i, t in enumerate(trajs):
            p = os.path.join(d, 'f%03d.npy' % i)
            np.save(p, t)
            npys.append(p)
        exp_lens = [len(t[::stride]) for t in trajs]

        def io_rank(r):
            gl, data = mio.load_h5_as_striped(h5, stride=stride)
            gl2, data2 = mio.load_npy_as_striped(npys, stride=stride)
            return list(gl), np.asarray(data), list(gl2), np.asarray(data2)
        world, results, errors = MPI.run_world(size, io_rank, seed=wseed + 4)
        ctx.count('worlds_run')
        log_world(ctx, world, errors)
        tag = 'stride>1' if stride > 1 else 'stride=1'
        if world_errors(ctx, errors, 'striped-io[%s]' % tag):
            return
        ctx.count('serial_comparisons')
        for r, (gl, data, gl2, data2) in enumerate(results):
            exp = np.concatenate([trajs[i][::stride]
                                  for i in range(r, len(trajs), size)])
            for nm, g, dat in (('h5', gl, data), ('npy', gl2, data2)):
                if dat.shape != exp.shape or not np.array_equal(dat, exp):
                    ctx.violation('mpi.io.%s.data[%s]' % (nm, tag),
                                  'rank %d: striped load differs from rows '
                                  'r, r+N, ... of the serial load' % r)
                if [int(x) for x in g] != exp_lens:
                    ctx.violation('mpi.io.%s.lengths[%s]' % (nm, tag),
                                  'rank %d: global lengths %s but the loaded '
                                  '(strided) trajectories have %s' % (
                                      r, [int(x) for x in g], exp_lens))
    finally:
        shutil.rmtree(d, ignore_errors=True)
