"""C05 - reading a ragged array equals reading the list of its rows.

Workload: seeded ragged arrays (unique-id values) x index expressions from the
supported grammar.  Monitor: wrapper on RaggedArray.__getitem__ (+ ra.where).
Oracle: list-of-rows model (vf.model.ramodel).
"""
import numbers

import numpy as np

from vf.model import ramodel as M

RULE = ('cases = seeded ragged arrays (1-7 rows, row length 1-6, equal/unequal, '
        '1-D or vector elements, 4 constructions) each read through ~40 index '
        'expressions of the grammar + attributes/iteration/flatten/where; plus '
        'arrays of more than 20000 rows (input checking switched off); '
        'non-trivial = read that touches >=2 rows of different length, or has '
        'a negative bound/step, or yields an empty row; distinct by (row '
        'lengths, element shape, construction, index expression)')
REQUIRED = ['getitem_calls', 'reads_checked']
ASSUMPTIONS = [
    'list-of-rows model (plain numpy indexing per row) is the specification',
    'scalars vs 1-element arrays and ndarray vs RaggedArray containers are '
    'compared by flattened value and row lengths, not by container type',
]


def shards(tier):
    if tier == 'quick':
        return [dict(kind='reads', n=1600, parts=15, timeout=600),
                dict(kind='big', n=2, parts=1, timeout=600)]
    return [dict(kind='reads', n=48000, parts=15, timeout=3000),
            dict(kind='big', n=24, parts=1, timeout=3000)]


def setup(ctx):
    global ra, R
    from enspara.ra import ra as _ra
    from vf import monitor
    ra = _ra
    R = ra.RaggedArray
    ctx.h_get = monitor.attach(R, '__getitem__')
    ctx.h_where = monitor.attach(ra, 'where')


def teardown(ctx):
    ctx.count('getitem_calls', ctx.h_get.calls)
    ctx.count('where_calls', ctx.h_where.calls)


def build(rng, rows):
    how = int(rng.integers(0, 4))
    if how == 0:
        return 'nested-lists', R([r.tolist() for r in rows]), None
    if how == 1:
        return 'list-of-arrays', R([r.copy() for r in rows]), None
    flat = np.concatenate(rows)
    lens = [len(r) for r in rows]
    tag = ''
    # memory layout of the flat data (e.g. np.vstack([phi, psi]).T is
    # Fortran-ordered; a column block of a wider table is strided)
    r = rng.random()
    if flat.ndim >= 2 and r < 0.3:
        flat, tag = np.asfortranarray(flat), '[F]'
    elif r < 0.45:
        big = np.zeros((2 * len(flat),) + flat.shape[1:], dtype=flat.dtype)
        big[::2] = flat
        flat, tag = big[::2], '[strided]'
    if how == 2:
        return 'flat+list-lengths' + tag, R(flat, lengths=lens), None
    la = np.array(lens)
    a = R(flat, lengths=la)
    if rng.random() < 0.5:
        # the caller goes on using its own lengths array for something else
        la[...] = la[::-1].copy() - (la.min() - 1)
        la[0] = 1
        tag += '[lengths-recycled]'
    return 'flat+array-lengths' + tag, a, None


def rnd_bound(rng, L):
    c = [None] + list(range(1, L + 3)) + [-x for x in range(1, L + 3)] + [0]
    return c[int(rng.integers(0, len(c)))]


def rnd_slice(rng, L, allow_neg_step=True):
    a = rnd_bound(rng, L)
    b = rnd_bound(rng, L)
    steps = [None, 1, 2, 3] + ([-1, -2] if allow_neg_step else [])
    st = steps[int(rng.integers(0, len(steps)))]
    if rng.random() < 0.35:
        a = None
    if rng.random() < 0.35:
        b = None
    return slice(a, b, st)


def rnd_rowlist(rng, n):
    k = int(rng.integers(1, n + 2))
    return [int(x) for x in rng.integers(-n, n, size=k)]


def gen_index(rng, rows):
    n = len(rows)
    lens = [len(r) for r in rows]
    maxL = max(lens)
    form = ['int', 'rowslice', 'rowlist', 'elem', 'int-slice', 'slice-int',
            'slice-slice', 'list-slice', 'slice-list', 'list-list',
            'rowarray', 'arr-arr', 'arr-int'][int(rng.integers(0, 13))]
    if form == 'int':
        return form, int(rng.integers(-n, n))
    if form == 'rowslice':
        return form, rnd_slice(rng, n)
    if form == 'rowlist':
        return form, rnd_rowlist(rng, n)
    if form == 'rowarray':
        return form, np.array(rnd_rowlist(rng, n))
    if form == 'elem':
        r = int(rng.integers(-n, n))
        L = lens[r]
        # mostly valid, sometimes just outside the row
        if rng.random() < 0.25:
            c = int(rng.integers(L, maxL + 2)) if rng.random() < 0.7 else \
                -int(rng.integers(L + 1, L + 3))
        else:
            c = int(rng.integers(-L, L))
        return form, (r, c)
    if form == 'int-slice':
        r = int(rng.integers(-n, n))
        return form, (r, rnd_slice(rng, lens[r]))
    if form == 'slice-int':
        c = int(rng.integers(-maxL, maxL + 1))
        return form, (rnd_slice(rng, n), c)
    if form == 'slice-slice':
        return form, (rnd_slice(rng, n), rnd_slice(rng, maxL))
    if form == 'list-slice':
        return form, (rnd_rowlist(rng, n), rnd_slice(rng, maxL))
    if form == 'slice-list':
        k = int(rng.integers(1, 4))
        m = min(lens) if rng.random() < 0.7 else maxL
        return form, (rnd_slice(rng, n),
                      [int(x) for x in rng.integers(-m, m, size=k)])
    if form == 'arr-int':
        k = int(rng.integers(1, 5))
        rs = np.array([int(x) for x in rng.integers(-n, n, size=k)])
        m = min(lens[r] for r in rs)
        return form, (rs, int(rng.integers(-m, m)))
    if form in ('list-list', 'arr-arr'):
        k = int(rng.integers(1, 5))
        rs = [int(x) for x in rng.integers(-n, n, size=k)]
        cs = []
        for r in rs:
            L = lens[r]
            if rng.random() < 0.1:
                cs.append(int(L + rng.integers(0, 2)))
            else:
                cs.append(int(rng.integers(-L, L)))
        if form == 'arr-arr':
            return form, (np.array(rs), np.array(cs))
        return form, (rs, cs)
    raise AssertionError


def features(form, idx, rows, mres):
    """Qualifiers used in mechanism keys and in the non-triviality rule."""
    f = set()
    sl = []
    if isinstance(idx, slice):
        sl.append(('r', idx))
    if isinstance(idx, tuple):
        for nm, p in zip('rc', idx):
            if isinstance(p, slice):
                sl.append((nm, p))
    for nm, s in sl:
        if s.step is not None and s.step < 0:
            f.add(nm + 'negstep')
        if s.start is not None and s.start < 0:
            f.add(nm + 'negstart')
        if s.stop is not None and s.stop < 0:
            f.add(nm + 'negstop')
        if s.step is not None and s.step > 1:
            f.add(nm + 'step')
    if mres is not None:
        kind, val = mres
        if kind == 'rows':
            if len(val) == 0:
                f.add('norows')
            elif any(len(v) == 0 for v in val):
                f.add('emptyrow')
    return f


def compare(ctx, form, idx, rows, call, desc):
    """Run model and real; report a violation on disagreement."""
    try:
        mres = M.model_get(rows, idx)
        mexc = None
    except M.ModelIndexError as e:
        mres, mexc = None, e
    feats = features(form, idx, rows, mres)
    tag = form + ('[' + ','.join(sorted(feats)) + ']' if feats else '')
    ctx.seen('index_forms', tag)
    try:
        res = call()
        rexc = None
    except Exception as e:  # noqa
        res, rexc = None, e
    ctx.count('reads_checked')
    lens = [len(r) for r in rows]
    # non-triviality
    touched = set()
    if mres is not None and mres[0] in ('rows', 'flat'):
        if isinstance(idx, tuple):
            try:
                touched = {lens[r] for r in M._rows_of(idx[0], len(rows))} \
                    if not isinstance(idx[0], numbers.Integral) else set()
            except Exception:  # noqa
                touched = set()
        elif not isinstance(idx, numbers.Integral):
            touched = {len(v) for v in mres[1]}
    if len(touched) >= 2 or any('neg' in x for x in feats) or \
            'emptyrow' in feats:
        ctx.nontriv(desc['lens'], desc['elem'], desc['how'], repr(idx))
    if mexc is not None:
        ctx.count('model_raises')
        if rexc is None:
            ctx.violation(
                'ra.read.%s.out-of-row-not-rejected' % form,
                'index %r on rows of lengths %s: model raises IndexError (%s) '
                'but RaggedArray returned %r' % (idx, lens, mexc, res),
                {'index': repr(idx)})
        else:
            ctx.count('both_raise')
        return
    if rexc is not None:
        ctx.violation(
            'ra.read.%s.raised' % tag,
            'index %r on rows of lengths %s: valid on the list-of-rows model '
            'but RaggedArray raised %s: %s' % (
                idx, lens, type(rexc).__name__, str(rexc)[:200]),
            {'index': repr(idx), 'expected': M.flat_values(*mres)})
        return
    if 'norows' in feats:
        # zero-row result: only len() is compared (no data to compare)
        ok = len(res) == 0
        if not ok:
            ctx.violation('ra.read.%s.wrong-values' % tag,
                          'index %r: expected no rows, got %r' % (idx, res))
        return
    exp = M.flat_values(*mres)
    try:
        got, glens = M.real_flat(res)
    except Exception as e:  # noqa
        ctx.violation('ra.read.%s.unreadable-result' % tag,
                      'index %r: result %r cannot be read: %s' % (idx, res, e))
        return
    if got.shape != exp.shape or not np.array_equal(got, exp):
        ctx.violation(
            'ra.read.%s.wrong-values' % tag,
            'index %r on rows of lengths %s: expected %s got %s' % (
                idx, lens, exp.tolist(), got.tolist()),
            {'index': repr(idx)})
        return
    if glens is not None and mres[0] == 'rows':
        elens = [len(v) for v in mres[1]]
        if list(glens) != elens:
            ctx.violation(
                'ra.read.%s.wrong-lengths' % tag,
                'index %r: expected row lengths %s got %s' % (
                    idx, elens, glens))
            return
    ctx.count('reads_agree')


def run_big(ctx, rng, idx):
    """More than 20000 rows: the constructor switches its input checking
    off above that size."""
    n = int(rng.integers(20001, 26000))
    lens = rng.integers(1, 4, size=n)
    if idx % 2:
        lens[:] = 2
    starts = np.concatenate([[0], np.cumsum(lens)[:-1]])
    flat = np.arange(int(lens.sum()), dtype=np.int64)
    rows = [flat[s_:s_ + L] for s_, L in zip(starts, lens)]
    how = ['list-of-arrays', 'flat+array-lengths'][idx % 2]
    a = R([r.copy() for r in rows]) if how == 'list-of-arrays' else \
        R(flat.copy(), lengths=lens.copy())
    desc = {'lens': 'n=%d, lengths 1-3' % n, 'elem': [], 'how': how,
            'dtype': 'int64'}
    ctx.describe(desc)
    ctx.count('reads_checked')
    if len(a) != n or not np.array_equal(a.lengths, lens) or \
            not np.array_equal(a.flatten(), flat) or \
            not np.array_equal(a.starts, starts):
        ctx.violation('ra.read.big.attrs', 'attributes of a %d-row array '
                      'disagree with the rows' % n)
        return
    for _ in range(60):
        i = int(rng.integers(-n, n))
        compare(ctx, 'int', i, rows, lambda: a[i], desc)
        j = int(rng.integers(0, lens[i]))
        compare(ctx, 'elem', (i, j), rows, lambda: a[i, j], desc)
    lo = int(rng.integers(0, n - 50))
    for ix in ((slice(lo, lo + 40), slice(None, 2)),
               (slice(lo, lo + 40, 3), slice(-1, None)),
               ([lo, lo + 7, -1], slice(0, 1))):
        compare(ctx, 'slice-slice' if isinstance(ix[0], slice)
                else 'list-slice', ix, rows, lambda: a[ix], desc)
    compare(ctx, 'rowslice', slice(lo, lo + 30), rows,
            lambda: a[lo:lo + 30], desc)
    ctx.nontriv('big', n, how)


def run_strings(ctx, rng, idx):
    """Rows of byte strings / unicode strings (atom names, residue codes):
    attributes and reads against the plain list of rows, compared as Python
    objects."""
    kind_ = ['S', 'U'][idx % 2]
    pool = [b'CA', b'CB', b'N', b'O', b'HA', b'OXT'] if kind_ == 'S' else \
        ['CA', 'CB', 'N', 'O', 'HA', 'OXT']
    nrows = int(rng.integers(1, 6))
    equal = rng.random() < 0.4
    L0 = int(rng.integers(1, 5))
    lens = [L0 if equal else int(rng.integers(1, 5)) for _ in range(nrows)]
    rows = [[pool[int(rng.integers(0, len(pool)))] for _ in range(L)]
            for L in lens]
    flat = np.array([x for r in rows for x in r])
    a = R(rows) if rng.random() < 0.5 else R(flat, lengths=lens)
    ctx.describe({'strings': kind_, 'lens': lens})
    ctx.count('reads_checked')
    ctx.count('string_arrays')
    exp_shape = (nrows, lens[0] if len(set(lens)) == 1 else None)
    try:
        got_rows = [[x for x in np.asarray(a[i]).tolist()]
                    for i in range(len(a))]
        ok = (tuple(a.shape) == exp_shape and list(a.lengths) == lens and
              got_rows == rows and a.size == len(flat) and
              np.asarray(a.flatten()).tolist() == flat.tolist() and
              a[0, 0] == rows[0][0] and a[-1, -1] == rows[-1][-1])
    except Exception as e:  # noqa
        ctx.violation('ra.read.strings.raised', '%s: %s' % (
            type(e).__name__, str(e)[:200]))
        return
    if not ok:
        ctx.violation('ra.read.attrs.wrong[strings]',
                      '%s rows %s: shape %s (expected %s) lengths %s' % (
                          kind_, lens, tuple(a.shape), exp_shape,
                          list(a.lengths)))
    else:
        ctx.count('reads_agree')


def run_case(ctx, kind, rng, idx):
    if kind == 'big':
        return run_big(ctx, rng, idx)
    if idx % 9 == 4:
        run_strings(ctx, rng, idx)
    elem_shape = [(), (), (), (3,), (2,)][int(rng.integers(0, 5))]
    rows = M.make_rows(rng, elem_shape=elem_shape)
    how, a, _ = build(rng, rows)
    if len(rows) >= 2 and not elem_shape and how != 'nested-lists' and \
            rng.random() < 0.15:
        # an array with a past: read once, then two rows exchanged by two
        # row assignments (row count and element count unchanged) - the
        # reads below see the exchanged rows
        i_, j_ = (int(x) for x in rng.choice(len(rows), size=2, replace=False))
        a[0, 0]
        list(a.starts)
        a[:, :]
        a[i_] = rows[j_].copy()
        a[j_] = rows[i_].copy()
        rows = list(rows)
        rows[i_], rows[j_] = rows[j_], rows[i_]
        how += '+rows-exchanged'
        ctx.count('arrays_with_a_past')
    lens = [len(r) for r in rows]
    desc = {'lens': lens, 'elem': list(elem_shape), 'how': how,
            'dtype': str(rows[0].dtype)}
    ctx.describe(desc)
    if idx % 400 == 0:
        ctx.sample(dict(desc, rows=[r.tolist() for r in rows][:3]))
    n = len(rows)
    # attributes -------------------------------------------------------
    flat = np.concatenate(rows).reshape(-1)
    # a freshly built array has the dtype numpy gives the same data
    exp_dtype = (np.array(rows[0].tolist()).dtype if how == 'nested-lists'
                 else rows[0].dtype)
    ctx.count('reads_checked')
    try:
        ok = (len(a) == n and list(a.lengths) == lens and
              list(a.starts) == list(np.cumsum([0] + lens[:-1])) and
              a.size == flat.size and a.dtype == exp_dtype and
              a.shape[0] == n and
              (a.shape[1] == (lens[0] if len(set(lens)) == 1 else None)) and
              np.array_equal(a.flatten(), flat) and
              a.flatten().shape == flat.shape)
    except Exception as e:  # noqa
        ok = False
        ctx.violation('ra.read.attrs.raised', '%s: %s on %s' % (
            type(e).__name__, e, desc))
    else:
        if not ok:
            ctx.violation(
                'ra.read.attrs.wrong', 'attributes disagree with rows: len=%r '
                'lengths=%r starts=%r size=%r dtype=%r shape=%r for %s' % (
                    len(a), list(a.lengths), list(a.starts), a.size, a.dtype,
                    a.shape, desc))
    # iteration --------------------------------------------------------
    ctx.count('reads_checked')
    try:
        it = [np.asarray(M._de_obj(x), dtype=float).reshape(np.shape(rows[i]))
              for i, x in enumerate(a)]
        if len(it) != n or not all(np.array_equal(x, r)
                                   for x, r in zip(it, rows)):
            ctx.violation('ra.read.iter.wrong', 'iteration disagrees: %s' % desc)
    except Exception as e:  # noqa
        ctx.violation('ra.read.iter.raised', '%s: %s on %s' % (
            type(e).__name__, e, desc))
    # index expressions --------------------------------------------------
    for _ in range(40):
        form, ix = gen_index(rng, rows)
        keep = [np.array(p_, copy=True) if isinstance(p_, np.ndarray) else None
                for p_ in (ix if isinstance(ix, tuple) else (ix,))]
        compare(ctx, form, ix, rows, lambda: a[ix], desc)
        # a read must not rewrite the caller's index arrays (they may be
        # reused, e.g. on another array with other row lengths)
        for p_, k_ in zip(ix if isinstance(ix, tuple) else (ix,), keep):
            if k_ is not None and not np.array_equal(p_, k_):
                ctx.violation('ra.read.%s.mutates-index' % form,
                              'index array %s became %s during a read' % (
                                  k_.tolist(), p_.tolist()))
                break
    # boolean ragged mask + where -----------------------------------------
    for _ in range(3):
        p = [0.0, 0.3, 0.6, 1.0][int(rng.integers(0, 4))]
        maskrows = [rng.random(len(r)) < p for r in rows]
        if elem_shape:
            break
        mask = R([m.copy() for m in maskrows])
        exp = np.array(M.model_mask_get(rows, maskrows), dtype=float)
        ctx.count('reads_checked')
        tag = 'mask' + ('[allfalse]' if exp.size == 0 else '')
        ctx.seen('index_forms', tag)
        try:
            got = np.asarray(a[mask], dtype=float).reshape(-1)
            if not np.array_equal(got, exp):
                ctx.violation('ra.read.%s.wrong-values' % tag,
                              'mask %s on lens %s: expected %s got %s' % (
                                  [m.tolist() for m in maskrows], lens,
                                  exp.tolist(), got.tolist()))
            else:
                ctx.count('reads_agree')
                if len(set(lens)) > 1 and exp.size:
                    ctx.nontriv(lens, 'mask', [m.tolist() for m in maskrows])
        except Exception as e:  # noqa
            ctx.violation('ra.read.%s.raised' % tag,
                          'mask %s on lens %s raised %s: %s' % (
                              [m.tolist() for m in maskrows], lens,
                              type(e).__name__, e))
        # ra.where == positions of True per row
        ctx.count('reads_checked')
        er = [r for r, m in enumerate(maskrows) for c in np.where(m)[0]]
        ec = [int(c) for m in maskrows for c in np.where(m)[0]]
        try:
            wr, wc = ra.where(mask)
            if list(wr) != er or list(wc) != ec:
                ctx.violation('ra.read.where.wrong',
                              'where(%s): expected %s/%s got %s/%s' % (
                                  [m.tolist() for m in maskrows], er, ec,
                                  list(wr), list(wc)))
            else:
                ctx.count('reads_agree')
        except Exception as e:  # noqa
            ctx.violation('ra.read.where%s.raised' % (
                '[allfalse]' if not er else ''),
                'where raised %s: %s' % (type(e).__name__, e))
