"""C19 - results depend on arguments only, not on history, threads or heap
contents.

Monitors: NEP-49 poisoning allocator (4 fill patterns), call-history
perturbation, OpenMP thread-count variation, masked-ufunc census (numpy proxy
in every enspara module), input fingerprints."""
import copy
import ctypes
import hashlib
import traceback
import warnings

import numpy as np
import scipy.sparse as sp

from vf import msmcommon as mc
from vf import clustercommon as cc

RULE = ('cases = one routine of a 65-entry registry of the numerical API with '
        'seeded arguments (including the degenerate ones that create masked '
        'cells: zero probabilities, all-zero joint-count blocks, zero rows); '
        'each argument tuple is evaluated 6 times in one process: heap fill '
        '0x00 / 0xFF(NaN) / 0x7F / noise for fresh and freed NumPy buffers, '
        'after a random prefix of other registry calls, with 1/4/16 OpenMP '
        'threads; results must be bit-identical (NaN-aware) or raise the same '
        'exception type, and arguments must be unchanged; non-trivial = '
        'routine x argument tuple whose evaluation allocated poisoned memory '
        'under every fill and (for the masked-cell routines) contained a '
        'masked cell; distinct by (routine, argument hash)')
REQUIRED = ['routine_calls', 'differentials_compared', 'bytes_poisoned',
            'worker_count_differentials',
            'masked_ufunc_calls_censused']
ASSUMPTIONS = ['the allocator hook covers NumPy array data only (not SciPy '
               'C workspaces, not Python objects)',
               'random routines are called with fixed integer seeds',
               'the sparse eigen-solver (ARPACK, >= 1000 states) starts from '
               'its own pseudo-random vector: for eq_probs[large-sparse] only '
               'the shape of the result is compared (the entry serves the '
               'argument fingerprint)']


def shards(tier):
    if tier == 'quick':
        return [dict(kind='diff', n=1350, parts=15, timeout=1200, poison=True),
                dict(kind='diff', n=90, parts=1, timeout=1200, poison=True,
                     variant='asan', start=500000),
                dict(kind='workers', n=24, parts=4, timeout=1200,
                     start=700000)]
    return [dict(kind='diff', n=36000, parts=15, timeout=3400, poison=True),
            dict(kind='diff', n=2000, parts=1, timeout=3400, poison=True,
                 variant='asan', start=500000),
            dict(kind='workers', n=400, parts=8, timeout=3400, start=700000)]


# --------------------------------------------------------------------------
class NPProxy:
    """Stands in for the `np` global of an enspara module: forwards
    everything, records ufunc calls made with where= but without out=."""

    def __init__(self, real, census, modname):
        object.__setattr__(self, '_real', real)
        object.__setattr__(self, '_census', census)
        object.__setattr__(self, '_mod', modname)

    def __getattr__(self, name):
        v = getattr(self._real, name)
        if isinstance(v, np.ufunc):
            census, mod = self._census, self._mod

            def wrapped(*a, **k):
                if 'where' in k and k['where'] is not True:
                    import sys
                    fr = sys._getframe(1)
                    site = '%s:%s:%s%s' % (
                        mod, fr.f_code.co_name, name,
                        '' if k.get('out') is not None else ' [NO out=]')
                    census[site] = census.get(site, 0) + 1
                return v(*a, **k)
            return wrapped
        return v


def setup(ctx):
    import importlib
    import sys
    global E
    mods = ['enspara.geometry.libdist', 'enspara.cluster.kcenters',
            'enspara.cluster.kmedoids', 'enspara.cluster.hybrid',
            'enspara.cluster.util', 'enspara.msm.transition_matrices',
            'enspara.msm.builders', 'enspara.msm.timescales',
            'enspara.msm.synthetic_data', 'enspara.tpt.core',
            'enspara.tpt.tpt', 'enspara.tpt.path',
            'enspara.info_theory.mutual_info', 'enspara.info_theory.entropy',
            'enspara.info_theory.libinfo', 'enspara.ra.ra',
            'enspara.geometry.rotamer', 'enspara.cards.disorder',
            'enspara.info_theory.exposons']

    class NS:
        pass
    E = NS()
    for m in mods:
        setattr(E, m.split('.')[-1], importlib.import_module(m))
    E.tm = E.transition_matrices
    E.mi = E.mutual_info
    E.R = E.ra.RaggedArray
    ctx.census = {}
    for name, m in list(sys.modules.items()):
        if name.startswith('enspara') and m is not None and \
                getattr(m, 'np', None) is np:
            m.np = NPProxy(np, ctx.census, name)
    try:
        import poisonalloc
        ctx.pa = poisonalloc
        ctx.pa_old = poisonalloc.install()
        ctx.info['poison_allocator'] = 'installed'
    except Exception as e:  # noqa
        ctx.pa = None
        ctx.info['poison_allocator'] = 'unavailable: %s' % e
    try:
        ctx.gomp = ctypes.CDLL('libgomp.so.1')
    except OSError:
        ctx.gomp = None
    import vf.props.c17 as _c17
    _c17.tpt = E.tpt
    ctx.registry = build_registry()
    ctx.per_routine = {}


def teardown(ctx):
    if ctx.pa is not None:
        a, b = ctx.pa.stats()
        ctx.count('bytes_poisoned', int(b))
        ctx.count('poisoned_allocations', int(a))
        ctx.pa.set_mode(0)
    for site, n in ctx.census.items():
        ctx.count('masked_ufunc_calls_censused', n)
        if site.endswith('[NO out=]'):
            ctx.count('masked_ufunc_calls_without_out', n)
        ctx.seen('masked_ufunc_sites', site)
    ctx.info['masked_ufunc_sites'] = dict(ctx.census)
    ctx.info['routines'] = ctx.per_routine


# --------------------------------------------------------------------------
def canon(o, depth=0):
    """Canonical, hashable, NaN-aware representation of a result."""
    if isinstance(o, np.ndarray):
        if o.dtype == object:
            return ('objarr', o.shape, tuple(canon(x, depth + 1)
                                             for x in o.ravel()))
        return ('nd', o.shape, str(o.dtype),
                hashlib.sha1(np.ascontiguousarray(o).tobytes()).hexdigest())
    if sp.issparse(o):
        c = o.tocoo()
        order = np.lexsort((c.col, c.row))
        return ('sp', type(o).__name__, o.shape,
                canon(np.asarray(c.row)[order]),
                canon(np.asarray(c.col)[order]),
                canon(np.asarray(c.data)[order]))
    if type(o).__name__ == 'RaggedArray':
        return ('ra', canon(np.asarray(o._data)),
                canon(np.asarray(o.lengths)))
    if isinstance(o, (list, tuple)):
        return (type(o).__name__,) + tuple(canon(x, depth + 1) for x in o)
    if isinstance(o, dict):
        return ('dict',) + tuple((k, canon(v, depth + 1))
                                 for k, v in sorted(o.items(), key=repr))
    if isinstance(o, (float, np.floating)):
        return ('f', np.float64(o).tobytes().hex())
    if isinstance(o, (int, np.integer, bool, np.bool_, str, type(None))):
        return ('s', repr(o))
    if hasattr(o, 'to_original'):
        return ('trimmap', repr(sorted(o.to_original.items())))
    if hasattr(o, '_fields'):
        return ('nt',) + tuple(canon(x, depth + 1) for x in o)
    return ('obj', type(o).__name__)


def describe(o):
    if isinstance(o, np.ndarray):
        return o if o.size <= 30 else 'ndarray%s' % (o.shape,)
    if isinstance(o, (list, tuple)):
        return [describe(x) for x in o][:6]
    if sp.issparse(o):
        return describe(o.toarray())
    if isinstance(o, (float, int, str, type(None), np.number)):
        return o
    if type(o).__name__ == 'RaggedArray':
        return ['RA', describe(o._data), list(o.lengths)]
    return type(o).__name__


# --------------------------------------------------------------------------
def build_registry():
    """name -> (generator(rng) -> (args, kwargs, has_masked_cell), function)"""
    R = {}

    def reg(name, fn, gen):
        R[name] = (gen, fn)

    # --- distance kernels
    def g_dist(dtype):
        def g(rng):
            n, d = int(rng.integers(1, 40)), int(rng.integers(1, 8))
            X = (rng.normal(0, 5, size=(n, d))).astype(dtype)
            return (X, X[int(rng.integers(0, n))].copy()), {}, False
        return g
    reg('libdist.euclidean', E.libdist.euclidean, g_dist(np.float64))
    reg('libdist.euclidean[f32]', E.libdist.euclidean, g_dist(np.float32))
    reg('libdist.manhattan', E.libdist.manhattan, g_dist(np.int32))
    # caller-supplied (uninitialised) output buffers
    reg('libdist.euclidean[out]',
        lambda X, y: E.libdist.euclidean(X, y, out=np.empty(len(X))),
        g_dist(np.float64))
    reg('libdist.manhattan[out]',
        lambda X, y: E.libdist.manhattan(X, y, out=np.empty(len(X))),
        g_dist(np.float32))
    reg('libdist.hamming[out]',
        lambda X, y: E.libdist.hamming(X, y, out=np.empty(len(X))),
        lambda rng: ((lambda X: (X, X[0].copy()))(
            rng.integers(0, 3, size=(int(rng.integers(1, 30)),
                                     int(rng.integers(1, 8)))
                         ).astype(np.uint8)), {}, False))
    reg('libdist.hamming', E.libdist.hamming,
        lambda rng: ((lambda X: (X, X[0].copy()))(
            rng.integers(0, 3, size=(int(rng.integers(1, 30)),
                                     int(rng.integers(1, 8)))
                         ).astype(np.int16)), {}, False))

    # --- clustering
    def g_data(rng):
        X, _ = cc.gen_data(rng, nmax=40, nmin=4, dtype=np.float64)
        return X

    def g_kc(rng):
        X = g_data(rng)
        return (X, 'euclidean'), {'n_clusters': int(rng.integers(1, 6))}, False
    reg('kcenters', lambda *a, **k: tuple(E.kcenters.kcenters(*a, **k)), g_kc)

    def g_km(rng):
        X = g_data(rng)
        return (X, 'euclidean'), {'n_clusters': int(rng.integers(1, 5)),
                                  'n_iters': 2,
                                  'random_state': int(rng.integers(0, 999))}, \
            False
    reg('kmedoids', lambda *a, **k: tuple(E.kmedoids.kmedoids(*a, **k)), g_km)

    def g_hy(rng):
        X = g_data(rng)
        return (X, 'manhattan'), {'n_clusters': int(rng.integers(1, 5)),
                                  'n_iters': 2,
                                  'random_state': int(rng.integers(0, 999))}, \
            False
    reg('hybrid', lambda *a, **k: tuple(E.hybrid.hybrid(*a, **k)), g_hy)

    def g_assign(rng):
        X = g_data(rng)
        k = min(int(rng.integers(1, 6)), len(X))
        return (X, [X[i].copy() for i in rng.choice(len(X), k, replace=False)],
                E.libdist.euclidean), {}, False
    reg('assign_to_nearest_center', E.util.assign_to_nearest_center, g_assign)

    def cutoff_metric(X, y):
        # a metric with a cut-off: "not comparable" beyond it (+inf), as
        # contact- or overlap-based similarity measures behave
        d = np.sqrt(((np.asarray(X, dtype=float) - np.asarray(
            y, dtype=float)) ** 2).sum(axis=1))
        return np.where(d > 3.0, np.inf, d)

    def g_assign_cut(rng):
        X = g_data(rng)
        X = X + 50.0 * rng.integers(0, 3, size=(len(X), 1))   # far groups
        k = min(int(rng.integers(1, 4)), len(X))
        return (X, [X[i].copy() for i in rng.choice(len(X), k, replace=False)],
                cutoff_metric), {}, True
    reg('assign_to_nearest_center[cutoff-metric]',
        E.util.assign_to_nearest_center, g_assign_cut)

    def g_find(rng):
        n = int(rng.integers(2, 40))
        return (rng.integers(0, 4, size=n), rng.random(n)), {}, False
    reg('find_cluster_centers', E.util.find_cluster_centers, g_find)

    # --- MSM
    def g_assigns(rng):
        trajs = [rng.integers(0, 4, size=int(rng.integers(3, 30)))
                 for _ in range(int(rng.integers(1, 5)))]
        return (E.R(trajs),), {'lag_time': int(rng.integers(1, 4)),
                               'sliding_window': bool(rng.random() < 0.5)}, \
            False
    reg('assigns_to_counts', E.tm.assigns_to_counts, g_assigns)

    def g_counts(container=None, zero_row=False):
        def g(rng):
            C = mc.strongly_connected_counts(rng, nmin=2, nmax=8)
            masked = False
            if zero_row and rng.random() < 0.6:
                C = np.array(C)
                C[int(rng.integers(0, len(C)))] = 0
                masked = True
            cn = container or ['ndarray', 'csr', 'coo', 'lil'][
                int(rng.integers(0, 4))]
            return (mc.to_container(C, cn),), {}, masked
        return g
    reg('builders.normalize', E.builders.normalize, g_counts(zero_row=True))
    reg('builders.transpose', E.builders.transpose, g_counts())
    reg('builders.mle', E.builders.mle, g_counts())
    reg('builders._prinz_mle', lambda C: E.builders._prinz_mle(
        np.asarray(C, dtype=float)), g_counts('ndarray'))
    reg('builders._row_normalize', E.builders._row_normalize,
        g_counts(zero_row=True))
    reg('trim_disconnected', E.tm.trim_disconnected, lambda rng: (
        (lambda C: (mc.to_container(np.where(
            rng.random(C.shape) < 0.4, 0, C), ['ndarray', 'csr'][
                int(rng.integers(0, 2))]),))(
            mc.strongly_connected_counts(rng, nmin=3, nmax=9, real=False)),
        {}, False))

    def g_T(rng):
        T, _ = mc.irreducible_chain(rng, nmin=3, nmax=10)
        cn = ['ndarray', 'csr'][int(rng.integers(0, 2))]
        return (mc.to_container(T, cn),), {}, False
    reg('eigenspectrum', E.tm.eigenspectrum, g_T)

    def g_big_sparse(rng):
        # >= 1000 states (the sparse eigen-solver path) in CSC or CSR storage
        # that holds explicitly stored zeros, as masking .data leaves behind
        Cb = mc.large_metastable_counts(rng).astype(float)
        Tb = Cb.tocsc() if rng.random() < 0.6 else Cb.tocsr()
        Tb.data[rng.choice(Tb.nnz, size=150, replace=False)] = 0.0
        rs = np.asarray(Tb.sum(axis=1)).ravel()
        # row-normalise in place, which keeps the stored zeros
        if Tb.format == 'csc':
            Tb.data /= rs[Tb.indices]
        else:
            Tb.data /= np.repeat(rs, np.diff(Tb.indptr))
        return (Tb,), {}, False
    # (ARPACK starts from its own pseudo-random vector, so two runs agree to
    # ~1e-12, not bit for bit, any rounding has boundaries, and on these
    # slowly mixing chains even the sign of a 1e-12 population varies: only
    # the shape of the result is compared; what this entry is for is the
    # fingerprint of the argument's buffers)
    def big_eq(T):
        p_ = np.asarray(E.tm.eq_probs(T), dtype=float)
        return p_.shape
    reg('eq_probs[large-sparse]', big_eq, g_big_sparse)
    reg('eq_probs', E.tm.eq_probs, g_T)

    def g_ens(rng):
        T, _ = mc.irreducible_chain(rng, nmin=3, nmax=8)
        p = rng.random(len(T))
        return (T, p / p.sum(), int(rng.integers(1, 6))), {}, False
    reg('synthetic_ensemble', E.synthetic_data.synthetic_ensemble, g_ens)

    # --- TPT
    def g_tpt(rng):
        from vf.props.c07 import gen_sets
        T, pi = mc.reversible_chain(rng, nmin=3, nmax=10)
        s, k = gen_sets(rng, len(T))
        cn = ['ndarray', 'csr', 'lil'][int(rng.integers(0, 3))]
        return mc.to_container(T, cn), s, k, pi
    reg('committors', E.core.committors,
        lambda rng: ((lambda t: (t[0], t[1], t[2]))(g_tpt(rng)), {}, False))
    reg('mfpts[sinks]', E.core.mfpts,
        lambda rng: ((lambda t: (t[0],))(g_tpt(rng)), {'sinks': [0]}, False))
    reg('mfpts[all]', E.core.mfpts,
        lambda rng: ((lambda t: (t[0],))(g_tpt(rng)), {}, False))
    for nm in ('reactive_fluxes', 'net_fluxes', 'reactive_populations'):
        reg(nm, getattr(E.tpt, nm),
            lambda rng: ((lambda t: (t[0], t[1], t[2]))(g_tpt(rng)), {},
                         False))

    def g_paths(rng):
        from vf.props.c17 import gen_graph
        kind, NF, s, k, _ = gen_graph(rng)
        return (s, k, NF), {'remove_path': ['subtract', 'bottleneck'][
            int(rng.integers(0, 2))], 'num_paths': 4}, False
    reg('paths', E.path.paths, g_paths)
    reg('top_path', E.path.top_path,
        lambda rng: ((lambda t: t[0])(g_paths(rng)), {}, False))

    # --- information theory
    def g_feat(rng):
        T = int(rng.integers(2, 60))
        f = int(rng.integers(1, 4))
        return rng.integers(0, 3, size=(T, f)).astype(np.int32)
    reg('joint_counts', E.mi.joint_counts,
        lambda rng: ((g_feat(rng),), {'n_x': 4}, False))

    def g_jc(rng):
        X = g_feat(rng)
        jc = np.array(E.mi.joint_counts(X, n_x=4), dtype=np.uint32)
        masked = False
        if rng.random() < 0.6:
            # a feature pair without any observation: all-zero block
            a = int(rng.integers(0, jc.shape[0]))
            b = int(rng.integers(0, jc.shape[1]))
            jc[a, b] = 0
            masked = True
        return (jc,), {}, masked
    reg('mutual_information', E.mi.mutual_information, g_jc)
    reg('mi_matrix', E.mi.mi_matrix, lambda rng: (
        (lambda X: ([X[:len(X) // 2 + 1], X[len(X) // 2:]],
                    [X[:len(X) // 2 + 1], X[len(X) // 2:]], 3, 3))(
            g_feat(rng)), {}, False))

    def g_w(rng):
        X = g_feat(rng)
        w = rng.random(len(X))
        w[rng.random(len(X)) < 0.2] = 0
        w[0] = 0.5
        return (X, w / w.sum()), {'n_feature_states': np.full(X.shape[1], 4)},\
            True
    reg('weighted_mi', E.mi.weighted_mi, g_w)

    def g_mimat(rng):
        n = int(rng.integers(2, 6))
        A = rng.random((n, n))
        A = (A + A.T) / 2
        return A
    reg('channel_capacity_normalization', E.mi.channel_capacity_normalization,
        lambda rng: ((lambda A: (A, rng.integers(2, 6, size=len(A)),
                                 rng.integers(2, 6, size=len(A))))(
            g_mimat(rng)), {}, False))
    reg('mi_to_nmi', E.mi.mi_to_nmi,
        lambda rng: ((lambda A: (A + np.diag(np.full(len(A), 2.0)),))(
            g_mimat(rng)), {}, False))
    reg('mi_to_apc', E.mi.mi_to_apc, lambda rng: ((g_mimat(rng),), {}, False))
    reg('mi_to_nmi_apc', E.mi.mi_to_nmi_apc,
        lambda rng: ((lambda A: (A + np.diag(np.full(len(A), 2.0)),))(
            g_mimat(rng)), {}, False))

    def g_p(rng):
        k = int(rng.integers(2, 12))
        p = rng.random(k)
        masked = False
        if rng.random() < 0.7:
            p[rng.random(k) < 0.4] = 0
            p[0] = 0.3
            masked = bool((p == 0).any())
        shape2 = rng.random() < 0.3
        if shape2:
            p = np.outer(p, rng.random(3))
        return (p / p.sum(),), {'normalize': bool(rng.random() < 0.5)}, masked
    reg('shannon_entropy', E.entropy.shannon_entropy, g_p)

    def g_pq(rng):
        k = int(rng.integers(2, 9))
        P = rng.random((2, k))
        P[rng.random((2, k)) < 0.3] = 0
        P[:, 0] += 0.1
        Q = rng.random((2, k)) + 0.01
        return (P / P.sum(1, keepdims=True), Q / Q.sum(1, keepdims=True)), \
            {}, True
    reg('kl_divergence', E.entropy.kl_divergence, g_pq)
    reg('js_divergence', E.entropy.js_divergence, g_pq)

    # --- the same routines through their optional arguments
    reg('trim_disconnected[inplace]', E.tm.trim_disconnected, lambda rng: (
        (lambda C: (mc.to_container(np.where(
            rng.random(C.shape) < 0.4, 0, C), ['ndarray', 'ndarray', 'csr'][
                int(rng.integers(0, 3))], rng),))(
            mc.strongly_connected_counts(rng, nmin=3, nmax=9, real=False)),
        {'renumber_states': False, 'threshold': int(rng.integers(1, 3))},
        False))
    reg('builders.normalize[prior]', E.builders.normalize, lambda rng: (
        g_counts()(rng)[0], {'prior_counts': [1, 0.5][int(rng.integers(0, 2))],
                             'calculate_eq_probs': bool(rng.random() < 0.5)},
        False))
    reg('builders.transpose[prior]', E.builders.transpose, lambda rng: (
        g_counts()(rng)[0], {'prior_counts': 1,
                             'calculate_eq_probs': bool(rng.random() < 0.5)},
        False))

    def g_kc2(rng):
        X = g_data(rng)
        init = [X[i].copy() for i in rng.choice(len(X), 2, replace=False)]
        return (X, 'euclidean'), {
            'n_clusters': int(rng.integers(3, 7)), 'init_centers': init,
            'dist_cutoff': float(np.abs(X).max() * 0.2),
            'use_triangle_inequality': bool(rng.random() < 0.5)}, False
    reg('kcenters[init,cutoff]',
        lambda *a, **k: tuple(E.kcenters.kcenters(*a, **k)), g_kc2)
    reg('eigenspectrum[right]', E.tm.eigenspectrum, lambda rng: (
        g_T(rng)[0], {'left': False, 'n_eigs': 2}, False))
    reg('mfpts[populations]', E.core.mfpts, lambda rng: (
        (lambda t: (t[0],))(g_tpt(rng)[:1] + ()), {}, False))
    for nm in ('reactive_fluxes', 'net_fluxes', 'reactive_populations'):
        reg(nm + '[populations]', getattr(E.tpt, nm), lambda rng: (
            (lambda t: ((t[0], t[1], t[2]), {'populations': t[3]}))(
                g_tpt(rng)) + (False,)))
    reg('joint_counts[XY]', E.mi.joint_counts, lambda rng: (
        (lambda X: (X, ((X[:, :1] + 1) % 3).astype(np.int16)))(g_feat(rng)),
        {}, False))
    reg('weighted_mi[plain]', E.mi.weighted_mi, lambda rng: (
        g_w(rng)[0], {'normalize': False}, True))
    reg('assigns_to_counts[n_states]', E.tm.assigns_to_counts, lambda rng: (
        g_assigns(rng)[0], {'lag_time': 2, 'max_n_states': 6}, False))

    # --- ragged arrays
    def g_ra(rng):
        rows = [rng.normal(size=int(rng.integers(1, 6)))
                for _ in range(int(rng.integers(1, 6)))]
        return E.R(rows)
    reg('ra.add', lambda a, b: a + b,
        lambda rng: ((lambda a: (a, a * 2))(g_ra(rng)), {}, False))
    reg('ra.cmp', lambda a, b: a < b,
        lambda rng: ((lambda a: (a, 0.1))(g_ra(rng)), {}, False))
    reg('ra.slice2d', lambda a: a[:, 1:],
        lambda rng: ((g_ra(rng),), {}, False))
    reg('ra.reduce', lambda a: (a.max(), a.min(), a.flatten(), a.any()),
        lambda rng: ((g_ra(rng),), {}, False))
    reg('ra.where', lambda a: E.ra.where(a > 0),
        lambda rng: ((g_ra(rng),), {}, False))

    # --- rotamers / transitions
    def g_top(rng):
        import mdtraj as md
        top = md.Topology()
        ch = top.add_chain()
        for r in range(int(rng.integers(2, 6))):
            res = top.add_residue(['ALA', 'SER', 'VAL', 'LEU'][
                int(rng.integers(0, 4))], ch)
            for nm, el in (('N', 'N'), ('CA', 'C'), ('C', 'C'), ('O', 'O'),
                           ('CB', 'C'), ('HA', 'H'), ('HB1', 'H')):
                top.add_atom(nm, md.element.get_by_symbol(el), res)
        return (top,), {}, False
    reg('exposons.sidechain_atom_ids',
        lambda top: [np.asarray(x) for x in
                     E.exposons.get_sidechain_atom_ids(top)], g_top)
    reg('exposons.condense_sidechain_sasas',
        lambda sasas, top: E.exposons.condense_sidechain_sasas(sasas, top),
        lambda rng: (lambda t: ((rng.random((4, t.n_atoms)), t), {}, False))(
            g_top(rng)[0][0]))
    reg('rotamers', E.rotamer._rotamers, lambda rng: (
        (rng.uniform(0, 360, size=int(rng.integers(1, 80))) + 0.0123,
         [0, 120, 240, 360]), {'buffer_width': int(rng.integers(0, 60))},
        False))
    reg('transitions', E.disorder.transitions, lambda rng: (
        (rng.integers(0, 2, size=(int(rng.integers(1, 5)),
                                  int(rng.integers(2, 20)))),), {}, False))
    return R


# --------------------------------------------------------------------------
def refill_in_place(o, depth=0):
    """Give the argument objects other (still valid) contents WITHOUT
    creating new objects: square matrices get rows and columns reversed (a
    relabelling of states), other arrays are reversed along their first
    axis, topologies get an atom renamed.  Returns True if something
    changed."""
    changed = False
    if isinstance(o, np.ndarray) and o.dtype != object and o.size > 1 and \
            o.flags.writeable:
        new = o[::-1, ::-1].copy() if (o.ndim == 2 and
                                       o.shape[0] == o.shape[1]) \
            else o[::-1].copy()
        if not np.array_equal(new, o, equal_nan=o.dtype.kind == 'f'):
            o[...] = new
            changed = True
    elif type(o).__name__ == 'Topology':
        for atom in o.atoms:
            if atom.name == 'CB':
                atom.name = 'HA'        # no longer a side-chain atom
                changed = True
                break
    elif isinstance(o, (list, tuple)) and depth < 3:
        for x in o:
            changed = refill_in_place(x, depth + 1) or changed
    elif isinstance(o, dict) and depth < 3:
        for x in o.values():
            changed = refill_in_place(x, depth + 1) or changed
    return changed


def clear_function_caches():
    import sys
    n = 0
    for name, m in list(sys.modules.items()):
        if not name.startswith('enspara') or m is None:
            continue
        for v in list(vars(m).values()):
            cc_ = getattr(v, 'cache_clear', None)
            if callable(cc_) and hasattr(v, 'cache_info'):
                try:
                    cc_()
                    n += 1
                except Exception:  # noqa
                    pass
    return n


def call(fn, args, kwargs):
    a = copy.deepcopy(args)
    k = copy.deepcopy(kwargs)
    from vf.monitor import Frozen
    fz = Frozen(*a, **k)
    try:
        with warnings.catch_warnings():
            warnings.simplefilter('ignore')
            res = fn(*a, **k)
        out = ('ok', canon(res), describe(res))
    except Exception as e:  # noqa
        out = ('exc', type(e).__name__, str(e)[:200])
    return out, fz.changed()


def bace_counts(rng, n):
    """Blocky transition counts with a few poorly sampled states."""
    k = int(rng.integers(2, 6))
    lab = rng.integers(0, k, size=n)
    P = np.where(lab[:, None] == lab[None, :], 0.5, 0.02)
    C = rng.poisson(P * rng.integers(5, 200, size=(n, 1))).astype(float)
    C[np.arange(n), np.arange(n)] += rng.integers(1, 50, size=n)
    low = rng.random(n) < 0.1
    if low.any():
        C[low] = (C[low] > 0) * (rng.random((int(low.sum()), n)) < 0.1)
        C[:, low] = C[:, low] * (rng.random((n, int(low.sum()))) < 0.1)
    return C


def run_workers(ctx, rng, idx):
    """Routines that farm work out to worker processes: the result may not
    depend on the number of workers, on the order in which they finish, or
    on repeating the call."""
    from enspara.msm import bace
    from vf.monitor import Frozen
    n = int(rng.integers(8, 25)) if idx % 3 == 0 else \
        int(rng.integers(60, 160))
    C = bace_counts(rng, n)
    nm = int(rng.integers(2, 5))
    chunk = [100, 100, 7, 25][int(rng.integers(0, 4))]
    procs = [int(x) for x in rng.permutation([2, 3, 4, 5, 7])[:3]]
    ctx.describe({'routine': 'bace', 'n_states': n, 'n_macrostates': nm,
                  'chunk_size': chunk, 'n_procs': procs,
                  'C': C if n <= 10 else 'elided'})

    def digest(res):
        bf, labels = res
        return (tuple((k, repr(float(bf[k]))) for k in sorted(bf)),   # NaN == NaN
                tuple((k, tuple(int(x) for x in labels[k]))
                      for k in sorted(labels)))

    def run_bace(p):
        arg = C.copy()
        fz = Frozen(arg)
        out = digest(bace.bace(arg, nm, chunk_size=chunk, n_procs=p))
        if fz.changed():
            ctx.violation('pure.bace.mutates-argument',
                          'bace(n_procs=%d) modified its count matrix' % p)
        return out

    def run_prune(p):
        c, labels, keep = bace.baysean_prune(C.copy(), n_procs=p)
        return (np.asarray(c).tobytes(), tuple(int(x) for x in labels),
                tuple(int(x) for x in keep))
    for name, fn in (('bace', run_bace), ('baysean_prune', run_prune)):
        try:
            base = fn(1)
        except Exception as e:  # noqa
            ctx.count('workers_routine_raised')
            ctx.seen('consistent_exceptions', '%s:%s' % (name,
                                                         type(e).__name__))
            continue
        ctx.count('routine_calls')
        for p in procs + [procs[0], 1]:
            try:
                out = fn(p)
            except Exception as e:  # noqa
                ctx.violation('pure.%s.raises-with-workers' % name,
                              'n_procs=%d: %s: %s' % (p, type(e).__name__,
                                                      str(e)[:200]))
                continue
            ctx.count('routine_calls')
            ctx.count('worker_count_differentials')
            if out != base:
                what = 'result'
                if name == 'bace':
                    what = 'Bayes factors' if out[0] != base[0] else 'lumping'
                ctx.violation(
                    'pure.%s.depends-on-worker-count' % name,
                    '%s with n_procs=%d: %s differs from n_procs=1 (%d '
                    'states, chunk_size=%d)' % (name, p, what, n, chunk))
                break
        ctx.seen('routines', name + '[workers]')
    ctx.count('differentials_compared')
    if n >= 60:
        ctx.nontriv('bace', C.tobytes(), nm, chunk)


def run_case(ctx, kind, rng, idx):
    if kind == 'workers':
        return run_workers(ctx, rng, idx)
    names = sorted(ctx.registry)
    name = names[int(rng.integers(0, len(names)))]
    gen, fn = ctx.registry[name]
    if ctx.pa:
        ctx.pa.set_mode(0)
    args, kwargs, masked = gen(rng)
    ctx.describe({'routine': name, 'args': describe(list(args)),
                  'kwargs': {k: describe(v) for k, v in kwargs.items()},
                  'masked_cell': masked})
    st = ctx.per_routine.setdefault(name, {'cases': 0, 'masked': 0,
                                           'disagreements': 0})
    st['cases'] += 1
    st['masked'] += bool(masked)
    conditions = [(0, 1, False), (1, 4, True), (2, 16, False), (3, 2, True),
                  (1, 1, False), (3, 16, True)]
    outs = []
    poisoned_each = True
    for mode, threads, prefix in conditions:
        if ctx.gomp is not None:
            ctx.gomp.omp_set_num_threads(threads)
        if ctx.pa:
            ctx.pa.set_mode(mode, int(rng.integers(1, 2 ** 31)))
        if prefix:
            # history perturbation: other registry calls + buffers of junk
            for _ in range(int(rng.integers(1, 4))):
                n2 = names[int(rng.integers(0, len(names)))]
                g2, f2 = ctx.registry[n2]
                try:
                    a2, k2, _ = g2(rng)
                    call(f2, a2, k2)
                except Exception:  # noqa
                    pass
            junk = [np.full(int(rng.integers(1, 200)), v)
                    for v in (np.nan, np.inf, -1e300, 7.0)]
            del junk
        b0 = ctx.pa.stats()[1] if ctx.pa else 0
        out, changed = call(fn, args, kwargs)
        ctx.count('routine_calls')
        if ctx.pa and ctx.pa.stats()[1] == b0:
            poisoned_each = False
        if changed:
            ctx.violation('pure.%s.mutates-argument' % name,
                          '%s modified its argument(s) %s' % (name, changed))
        outs.append((mode, threads, prefix, out))
    if ctx.pa:
        ctx.pa.set_mode(0)
    if ctx.gomp is not None:
        ctx.gomp.omp_set_num_threads(2)
    ctx.count('differentials_compared')
    base = outs[0][3]
    for mode, threads, prefix, out in outs[1:]:
        if out[:2] != base[:2]:
            st['disagreements'] += 1
            ctx.violation(
                'pure.%s.depends-on-heap-or-threads%s' % (
                    name, '[masked-cell]' if masked else ''),
                '%s: fill=0x00/threads=1 gave %s but fill-mode %d / %d threads'
                ' / history-prefix=%s gave %s' % (
                    name, str(base[2] if base[0] == 'ok' else base)[:300],
                    mode, threads, prefix,
                    str(out[2] if out[0] == 'ok' else out)[:300]))
            break
    # ---- the very same argument objects, refilled in place between two
    # calls, against fresh copies with the same contents: a result keyed on
    # the identity of an argument (a memo, an lru_cache) shows here
    if idx % 2 == 0:
        a1, k1 = copy.deepcopy(args), copy.deepcopy(kwargs)
        clear_function_caches()      # these objects are the first ones seen
        try:
            with warnings.catch_warnings():
                warnings.simplefilter('ignore')
                fn(*a1, **k1)
        except Exception:  # noqa
            pass
        if refill_in_place(a1) | refill_in_place(k1):
            try:
                with warnings.catch_warnings():
                    warnings.simplefilter('ignore')
                    same = ('ok', canon(fn(*a1, **k1)))
            except Exception as e:  # noqa
                same = ('exc', type(e).__name__)
            # emulate a fresh process for the reference: drop every
            # functools cache found in the library's modules (a cache keyed
            # on equality would otherwise serve the copies too)
            ctx.count('function_caches_cleared', clear_function_caches())
            fresh, _ = call(fn, a1, k1)
            ctx.count('refilled_argument_pairs')
            if same[:2] != fresh[:2]:
                ctx.violation(
                    'pure.%s.depends-on-argument-identity' % name,
                    '%s: called again on the same argument objects after '
                    'they were given other contents in place, the result '
                    'differs from a call on fresh copies of those contents'
                    % name)
    if base[0] == 'exc':
        ctx.count('routine_raised_consistently')
        ctx.seen('consistent_exceptions', '%s:%s' % (name, base[1]))
    if poisoned_each and (masked or name not in (
            'shannon_entropy', 'mutual_information', 'weighted_mi',
            'kl_divergence', 'js_divergence', 'builders.normalize',
            'builders._row_normalize')):
        ctx.nontriv(name, canon(list(args)), canon(kwargs))
    ctx.seen('routines', name)
    if idx % 300 == 0:
        ctx.sample({'routine': name, 'args': describe(list(args)),
                    'result': base[2] if base[0] == 'ok' else list(base)})
