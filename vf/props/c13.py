"""C13 - distance kernels are exact for every dtype, memory layout and thread
count.  Three builds: plain (values), ASan+UBSan, TSan + libgomp interposer."""
import ctypes
import math
import threading

import numpy as np

RULE = ('cases = kernel (euclidean/manhattan/hamming) x dtype (int8-int64, '
        'float32/64; uint8-uint64 for hamming) x layout (C, Fortran, strided '
        'and negative-stride views, zero rows) x value class (small, '
        'full-range, overflow-adjacent) x out (None / contiguous / strided '
        'with guard band) plus hostile calls (wrong rank, width, mixed or '
        'unsupported dtypes, bad out, lists); OMP_NUM_THREADS in '
        '{1,2,3,4,8,16}; 1-4 Python threads on disjoint buffers; run in the '
        'plain, ASan+UBSan and TSan(+happens-before interposer) builds; '
        'non-trivial = valid call on a non-contiguous layout or with '
        'full-range values or with a strided out buffer; distinct by (kernel, '
        'dtype, layout, value class, out kind, shape, threads); 12% of the '
        'cases have 1-5 rows of 1024-20000 columns')
REQUIRED = ['kernel_calls', 'values_compared', 'hostile_calls_rejected',
            'guard_bands_checked']
ASSUMPTIONS = [
    'reference: Python integers (exact) for integer dtypes, float64 NumPy for '
    'floats; tolerance 1e-12 relative (2e-6 for float32 inputs; int64 adds '
    'the float64 conversion error of its operands)',
    'float inputs are kept below sqrt(float64 max) (sum of squares overflow is '
    'not part of the property)',
    'OpenMP static schedule only; TSan sees the interleavings that occurred',
]

EUC_DT = [np.int8, np.int16, np.int32, np.int64, np.float32, np.float64]
HAM_DT = [np.uint8, np.uint16, np.uint32, np.uint64, np.int8, np.int16,
          np.int32, np.int64]
THREADS = [1, 2, 3, 4, 8, 16]


def shards(tier):
    out = []
    q = tier == 'quick'
    per = 150 if q else 4000
    for i, t in enumerate(THREADS):
        out.append(dict(kind='values', n=per, start=i * 100000, parts=1,
                        env={'OMP_NUM_THREADS': t}, timeout=1800))
    for i, t in enumerate([1, 4] if q else [1, 2, 4, 16]):
        out.append(dict(kind='values', n=80 if q else 2000,
                        start=(10 + i) * 100000, parts=1, variant='asan',
                        env={'OMP_NUM_THREADS': t}, timeout=3000))
    for i, t in enumerate([2, 4, 8, 16] if q else [2, 3, 4, 8, 16]):
        out.append(dict(kind='values', n=40 if q else 800,
                        start=(20 + i) * 100000, parts=1, variant='tsan',
                        env={'OMP_NUM_THREADS': t}, timeout=3000))
    out.append(dict(kind='names', n=1, parts=1))
    return out


def setup(ctx):
    global L, util, exc
    from enspara.geometry import libdist as _L
    from enspara.cluster import util as _u
    from enspara import exception as _e
    L, util, exc = _L, _u, _e
    ctx.calls = 0
    ctx.omp = None
    try:
        ctx.omp = ctypes.CDLL(None).vf_gomp_regions
        ctx.omp.restype = ctypes.c_long
        ctx.omp_mt = ctypes.CDLL(None).vf_gomp_max_threads
        ctx.omp_mt.restype = ctypes.c_long
    except (AttributeError, OSError):
        ctx.omp = None


def teardown(ctx):
    ctx.count('kernel_calls', ctx.calls)
    if ctx.omp is not None:
        ctx.count('omp_regions_seen_by_interposer', int(ctx.omp()))
        ctx.seen('omp_max_threads', int(ctx.omp_mt()))
        if ctx.spec.get('variant') == 'tsan' and ctx.omp() == 0:
            ctx.violation('harness.no-omp-regions',
                          'interposer saw no parallel region')


def exact(kernel, X, y):
    """Reference distances (float64) and an absolute error allowance."""
    n = len(X)
    if kernel == 'hamming':
        d = X.shape[1]
        return ((X != y[None, :]).sum(axis=1) / float(d) if n
                else np.zeros(0)), np.zeros(n)
    if np.issubdtype(X.dtype, np.integer) and X.shape[1] > 64 and \
            X.dtype.itemsize <= 2:
        D = X.astype(np.int64) - y.astype(np.int64)[None, :]   # exact
        if kernel == 'euclidean':
            return np.sqrt((D * D).sum(axis=1).astype(float)), np.zeros(n)
        return np.abs(D).sum(axis=1).astype(float), np.zeros(n)
    if np.issubdtype(X.dtype, np.integer):
        yl = [int(v) for v in y.tolist()]
        out, allow = [], []
        for r in X.tolist():
            diffs = [int(a) - b for a, b in zip(r, yl)]
            if kernel == 'euclidean':
                out.append(math.sqrt(float(sum(v * v for v in diffs))))
            else:
                out.append(float(sum(abs(v) for v in diffs)))
            # int64 operands beyond 2**53 are rounded when converted
            allow.append(sum((abs(a) + abs(b)) * 2.3e-16
                             for a, b in zip(r, yl))
                         if X.dtype == np.int64 else 0.0)
        return np.array(out), np.array(allow)
    D = X.astype(np.float64) - y.astype(np.float64)
    if kernel == 'euclidean':
        return np.sqrt((D * D).sum(axis=1)), np.zeros(n)
    return np.abs(D).sum(axis=1), np.zeros(n)


def gen_values(rng, dtype, shape, vclass):
    if np.issubdtype(dtype, np.integer):
        info = np.iinfo(dtype)
        if vclass == 'small':
            lo, hi = max(info.min, -50), min(info.max, 50)
            return rng.integers(lo, hi + 1, size=shape).astype(dtype)
        if vclass == 'full':
            return rng.integers(info.min, info.max, size=shape,
                                dtype=dtype, endpoint=True)
        # overflow-adjacent: extremes and their neighbours
        pool = np.array([info.min, info.min + 1, info.max, info.max - 1, 0,
                         1], dtype=object)
        v = pool[rng.integers(0, len(pool), size=shape)]
        return np.array(v.tolist(), dtype=dtype).reshape(shape)
    if vclass == 'small':
        return rng.normal(0, 10, size=shape).astype(dtype)
    big = 1e30 if dtype == np.float32 else 1e150
    if vclass == 'full':
        return (rng.uniform(-1, 1, size=shape) * big).astype(dtype)
    fi = np.finfo(dtype)
    pool = np.array([fi.max if dtype == np.float32 else 1e150,
                     -(fi.max if dtype == np.float32 else 1e150),
                     fi.tiny, 0.0, -0.0, 1.0,
                     fi.smallest_subnormal, -fi.tiny / 4, fi.tiny * 0.75])
    return pool[rng.integers(0, len(pool), size=shape)].astype(dtype)


def layout(rng, A, kind):
    """Return a view/copy of the 2-D array A with the requested layout and
    identical logical content."""
    n, d = A.shape
    if kind == 'C':
        return np.ascontiguousarray(A)
    if kind == 'F':
        return np.asfortranarray(A)
    if kind == 'rowstep':
        big = np.zeros((n * 2 + 1, d), dtype=A.dtype)
        big[1::2][:n] = A
        return big[1::2][:n]
    if kind == 'colstep':
        big = np.zeros((n, d * 3), dtype=A.dtype)
        big[:, ::3] = A
        return big[:, ::3]
    if kind == 'negrow':
        return np.ascontiguousarray(A[::-1])[::-1]
    if kind == 'negcol':
        return np.ascontiguousarray(A[:, ::-1])[:, ::-1]
    if kind == 'both':
        big = np.zeros((n * 2, d * 2), dtype=A.dtype, order='F')
        big[::2, 1::2] = A
        return big[::2, 1::2]
    raise KeyError(kind)


LAYOUTS = ['C', 'F', 'rowstep', 'colstep', 'negrow', 'negcol', 'both']
SENT = -12345.678


def make_out(rng, n, kind):
    """Returns (out_view or None, guard_array, mask_of_out_cells)."""
    if kind == 'none':
        return None, None, None
    if kind == 'contig':
        big = np.full(n + 8, SENT)
        out = big[4:4 + n]
        mask = np.zeros(n + 8, dtype=bool)
        mask[4:4 + n] = True
        return out, big, mask
    step = int(rng.integers(2, 4))
    big = np.full(n * step + 8, SENT)
    out = big[4:4 + n * step:step]
    mask = np.zeros(len(big), dtype=bool)
    mask[4:4 + n * step:step] = True
    return out, big, mask


def one_call(ctx, rng, tag=''):
    kernel = ['euclidean', 'manhattan', 'hamming'][int(rng.integers(0, 3))]
    dts = HAM_DT if kernel == 'hamming' else EUC_DT
    dtype = dts[int(rng.integers(0, len(dts)))]
    n = [0, 1, 2, 3, 7, 64, int(rng.integers(1, 301))][int(rng.integers(0, 7))]
    d = int(rng.integers(1, 18))
    if rng.random() < 0.12:
        # few, very long rows (fewer rows than threads) / one huge dimension
        n = int(rng.integers(1, 6))
        d = [1024, 4096, 5000, 8191, 20000][int(rng.integers(0, 5))]
    vclass = ['small', 'small', 'full', 'adjacent'][int(rng.integers(0, 4))]
    lay = LAYOUTS[int(rng.integers(0, len(LAYOUTS)))]
    okind = ['none', 'none', 'contig', 'strided'][int(rng.integers(0, 4))]
    A = gen_values(rng, dtype, (n, d), vclass)
    if kernel == 'hamming' and n:
        # make equal coordinates likely
        yv = A[int(rng.integers(0, n))].copy()
        flip = rng.random(d) < 0.4
        yv[flip] = gen_values(rng, dtype, (d,), vclass)[flip]
    else:
        yv = gen_values(rng, dtype, (d,), vclass)
    X = layout(rng, A, lay)
    zero_width = kernel != 'hamming' and n > 0 and rng.random() < 0.05
    if zero_width:
        # no columns at all (e.g. X[:, mask] with an all-False mask): every
        # distance is 0.  The empty view sits inside real, non-zero data, so
        # a kernel that touches column 0 anyway returns something else
        c = int(rng.integers(0, d + 1))
        X, A, yv = X[:, c:c], A[:, c:c], yv[c:c]
        d = 0
    ylay = ['C', 'step', 'neg'][int(rng.integers(0, 3))]
    if zero_width:
        yb = gen_values(rng, dtype, (4,), 'small')
        y = yb[2:2]
        ylay = 'empty-view'
        ctx.count('zero_width_calls')
    elif ylay == 'step':
        yb = np.zeros(d * 2, dtype=dtype)
        yb[::2] = yv
        y = yb[::2]
    elif ylay == 'neg':
        y = np.ascontiguousarray(yv[::-1])[::-1]
    else:
        y = yv
    out, guard, mask = make_out(rng, n, okind)
    desc = {'kernel': kernel, 'dtype': np.dtype(dtype).name, 'shape': [n, d],
            'values': vclass, 'layout': lay, 'ylayout': ylay, 'out': okind,
            'omp_threads': ctx.spec.get('env', {}).get('OMP_NUM_THREADS'),
            'X': A if A.size <= 24 else 'elided',
            'y': yv if yv.size <= 12 else 'elided'}
    Xk, yk = X.copy(), y.copy()
    fn = getattr(L, kernel)
    ctx.calls += 1
    try:
        if out is not None and n and rng.random() < 0.3:
            # the caller reuses its output buffer: an earlier result for
            # other data is still in it
            fn(layout(rng, gen_values(rng, dtype, (n, max(d, 1)), 'small'),
                      'C'),
               gen_values(rng, dtype, (max(d, 1),), 'small'), out=out)
            desc['out_reused'] = True
        res = fn(X, y, out=out) if out is not None else fn(X, y)
    except Exception as e:  # noqa
        return desc, ('raised', '%s: %s' % (type(e).__name__, str(e)[:200]))
    problems = []
    if not (np.array_equal(X, Xk) and np.array_equal(y, yk)):
        problems.append(('libdist.mutates-input', 'X or y modified'))
    res = np.asarray(res)
    if res.dtype != np.float64 or res.shape != (n,):
        problems.append(('libdist.result-shape',
                         'result %s %s for %d rows' % (res.dtype, res.shape,
                                                       n)))
        return desc, ('bad', problems)
    if out is not None:
        if (n and not np.shares_memory(res, out)) or not np.array_equal(
                res, out, equal_nan=True):
            problems.append(('libdist.out-not-result',
                             'the out buffer does not hold / is not the '
                             'returned result'))
        ctx.count('guard_bands_checked')
        if not np.all(guard[~mask] == SENT):
            w = np.where(guard[~mask] != SENT)[0]
            problems.append(('libdist.out-of-bounds-write',
                             '%d guard cells around the out buffer were '
                             'overwritten' % len(w)))
    exp, allow = exact(kernel, A, yv)
    ctx.count('values_compared', n)
    rtol = 2e-6 if dtype == np.float32 else 1e-12
    err = np.abs(res - exp)
    lim = rtol * (1 + np.abs(exp)) + allow
    badm = ~(err <= lim)
    if np.any(badm):
        i = int(np.where(badm)[0][0])
        wide = vclass != 'small' and np.issubdtype(dtype, np.integer) and \
            np.dtype(dtype).itemsize >= 4
        problems.append((
            'libdist.%s.wrong-value[%s]' % (kernel, (
                'wide-int' if wide else ('wide-float32' if (
                    vclass != 'small' and dtype == np.float32) else 'plain'))),
            'row %d: got %.17g expected %.17g (dtype %s layout %s values %s)'
            % (i, res[i], exp[i], np.dtype(dtype).name, lay, vclass)))
    if problems:
        return desc, ('bad', problems)
    nontriv = lay != 'C' or vclass != 'small' or okind == 'strided'
    return desc, ('ok', nontriv)


def hostile(ctx, rng):
    """Calls that must raise a Python exception and leave `out` untouched."""
    kernel = ['euclidean', 'manhattan', 'hamming'][int(rng.integers(0, 3))]
    fn = getattr(L, kernel)
    good = np.int32 if kernel == 'hamming' else np.float64
    n, d = int(rng.integers(1, 20)), int(rng.integers(1, 9))
    X = (rng.integers(0, 5, size=(n, d))).astype(good)
    y = (rng.integers(0, 5, size=d)).astype(good)
    big = np.full(n + 8, SENT)
    out = big[4:4 + n]
    which = int(rng.integers(0, 14))
    a = [X, y]
    kw = {}
    name = ''
    if which == 0:
        a = [X[0], y]; name = 'X-1d'
    elif which == 1:
        a = [X.reshape(n, d, 1), y]; name = 'X-3d'
    elif which == 2:
        a = [X, y.reshape(1, d)]; name = 'y-2d'
    elif which == 3:
        a = [X, np.concatenate([y, y[:1]])]; name = 'width-mismatch-longer'
    elif which == 4:
        if d == 1:
            return
        a = [X, y[:-1]]; name = 'width-mismatch-shorter'
    elif which == 5:
        other = np.int64 if good != np.int64 else np.int16
        a = [X, y.astype(other)]; name = 'mixed-dtypes'
    elif which == 6:
        bad = [np.float16, np.complex128][int(rng.integers(0, 2))]
        a = [X.astype(bad), y.astype(bad)]; name = 'unsupported-dtype'
    elif which == 7:
        if kernel == 'hamming':
            a = [X.astype(np.float64), y.astype(np.float64)]
            name = 'float-for-hamming'
        else:
            a = [X.astype(np.uint32), y.astype(np.uint32)]
            name = 'unsigned-for-norm'
    elif which == 8:
        ob = np.full(n + 9, SENT)
        kw = {'out': ob[4:4 + n + 1]}; big = ob; out = kw['out']
        name = 'out-too-long'
    elif which == 9:
        if n == 1:
            return
        kw = {'out': out[:-1]}; name = 'out-too-short'
    elif which == 10:
        o32 = np.full(n, SENT, dtype=np.float32)
        kw = {'out': o32}; big = o32; out = o32; name = 'out-float32'
    elif which == 11:
        o2 = np.full((n, 2), SENT)
        kw = {'out': o2}; big = o2; out = o2; name = 'out-2d'
    elif which == 12:
        a = [X.tolist(), y.tolist()]; name = 'lists'
    elif which == 13:
        a = [X.astype(X.dtype.newbyteorder('>')),
             y.astype(y.dtype.newbyteorder('>'))]; name = 'big-endian'
    if 'out' not in kw and rng.random() < 0.5:
        kw = {'out': out}
    ctx.calls += 1
    ctx.seen('hostile_kinds', name)
    try:
        fn(*a, **kw)
    except Exception:  # noqa
        ctx.count('hostile_calls_rejected')
        if not np.all(np.asarray(big) == np.asarray(big).dtype.type(SENT)):
            ctx.violation('libdist.hostile.out-touched',
                          '%s(%s) raised but wrote into out' % (kernel, name))
        return
    ctx.violation('libdist.hostile.accepted[%s]' % name,
                  '%s accepted a hostile call (%s) without raising' % (
                      kernel, name))


def run_case(ctx, kind, rng, idx):
    if kind == 'names':
        pairs = {'euclidean': L.euclidean, 'manhattan': L.manhattan,
                 'cityblock': L.manhattan}
        for nm, f in pairs.items():
            g = util._get_distance_method(nm)
            g = getattr(g, '__vf_orig__', g)
            if g is not f:
                ctx.violation('libdist.metric-name', '%s maps to %r' % (nm, g))
        f = lambda X, y: X  # noqa
        if util._get_distance_method(f) is not f:
            ctx.violation('libdist.metric-name', 'callable not passed through')
        try:
            util._get_distance_method('no-such-metric')
            ctx.violation('libdist.metric-name', 'unknown name accepted')
        except exc.ImproperlyConfigured:
            pass
        ctx.count('metric_names_checked', 5)
        ctx.nontriv('names')
        return
    # hostile calls ------------------------------------------------------
    if idx % 3 == 0:
        hostile(ctx, rng)
    # concurrent Python threads on disjoint buffers ----------------------------
    nthreads = [1, 1, 2, 4][int(rng.integers(0, 4))]
    results = [None] * nthreads
    seeds = [int(rng.integers(0, 2 ** 31)) for _ in range(nthreads)]

    def work(i):
        r = np.random.default_rng(seeds[i])
        try:
            results[i] = one_call(ctx, r)
        except Exception as e:  # noqa
            results[i] = ({'thread': i}, ('harness', '%s: %s' % (
                type(e).__name__, e)))
    if nthreads == 1:
        work(0)
    else:
        ts = [threading.Thread(target=work, args=(i,)) for i in range(nthreads)]
        for t in ts:
            t.start()
        for t in ts:
            t.join()
        ctx.count('concurrent_caller_groups')
    descs = []
    for desc, (status, info) in results:
        descs.append(desc)
        ctx.describe({'calls': descs, 'python_threads': nthreads})
        if status == 'raised':
            ctx.violation('libdist.valid-call-raised',
                          'valid call raised %s (%s)' % (info, {
                              k: desc[k] for k in ('kernel', 'dtype', 'shape',
                                                   'layout', 'out')}))
        elif status == 'harness':
            ctx.violation('uncaught.harness', info)
        elif status == 'bad':
            for k, m in info:
                ctx.violation(k, m)
        elif info:
            ctx.nontriv(desc['kernel'], desc['dtype'], desc['layout'],
                        desc['values'], desc['out'], tuple(desc['shape']),
                        desc['omp_threads'], nthreads)
        ctx.seen('configs', '%s/%s/%s' % (desc.get('kernel'),
                                          desc.get('dtype'),
                                          desc.get('layout')))
    if idx % 100 == 0:
        ctx.sample(descs[0])
