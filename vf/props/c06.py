"""C06 - ragged-array writes keep all views coherent over any history.

Workload: seeded histories of 1-30 mutating / operator steps.  Monitor: after
EVERY step a full observation of the live object through all public read
paths plus the three slots (_data/_array/lengths).  Oracle: same history on a
list-of-rows model.
"""
import numpy as np

from vf.model import ramodel as M

RULE = ('cases = seeded operation histories (1-30 steps: element/row/2-D '
        'slice/mask/paired assignment, append, binary/reflected/augmented '
        'arithmetic, comparisons, invert, copy construction) each followed by '
        'a full observation; non-trivial = history with >=3 distinct mutating '
        'operation kinds on an array with unequal rows or with a structure '
        'change (append / row length change); distinct by (initial lengths, '
        'operation sequence)')
REQUIRED = ['observations', 'ops_applied']
ASSUMPTIONS = [
    'list-of-rows model is the specification; values written have the '
    "array's own dtype so numpy casting rules do not enter",
    'a row assignment that changes the row length and is rejected by the '
    'real array with an exception (state left coherent) is counted as '
    'rejected, not as a violation',
]


def shards(tier):
    if tier == 'quick':
        return [dict(kind='hist', n=1600, parts=16, timeout=900)]
    return [dict(kind='hist', n=40000, parts=16, timeout=3000)]


def setup(ctx):
    global ra, R
    from enspara.ra import ra as _ra
    ra = _ra
    R = ra.RaggedArray


class Fresh:
    """Unique values so a misplaced write is recognisable."""

    def __init__(self, dtype):
        self.n = 50000
        self.dtype = dtype

    def take(self, k):
        v = np.arange(self.n, self.n + k)
        self.n += k
        return v.astype(self.dtype)


def observe(ctx, a, rows, where):
    """Compare every public view of `a` with the model rows.  Returns list of
    (key, message)."""
    bad = []
    ctx.count('observations')
    n = len(rows)
    lens = [len(r) for r in rows]
    flat = np.concatenate(rows) if n else np.zeros(0)

    def chk(name, fn):
        try:
            ok = fn()
        except Exception as e:  # noqa
            bad.append(('ra.view.%s.raised' % name,
                        '%s raised %s: %s' % (name, type(e).__name__, e)))
            return
        if not ok:
            bad.append(('ra.view.%s.stale' % name,
                        'view %s disagrees with the model' % name))

    def eqv(x, y):
        x = np.asarray(M._de_obj(x), dtype=float)
        y = np.asarray(y, dtype=float)
        return x.shape == y.shape and np.array_equal(x, y)

    chk('len', lambda: len(a) == n)
    chk('lengths', lambda: list(a.lengths) == lens)
    chk('starts', lambda: list(a.starts) == list(np.cumsum([0] + lens[:-1])))
    chk('size', lambda: a.size == flat.size)
    chk('flatten', lambda: eqv(a.flatten(), flat))
    chk('rows', lambda: all(eqv(a[i], rows[i]) for i in range(n)))
    chk('negrows', lambda: all(eqv(a[-i - 1], rows[-i - 1]) for i in range(n)))
    chk('iter', lambda: [eqv(x, r) for x, r in zip(list(a), rows)] ==
        [True] * n and len(list(a)) == n)
    chk('fullslice', lambda: (lambda g: eqv(g[0], flat) and g[1] == lens)(
        M.real_flat(a[:, :])))
    chk('rowslice', lambda: (lambda g: eqv(g[0], flat) and g[1] == lens)(
        M.real_flat(a[:])))
    chk('elements', lambda: all(
        eqv(a[r, c], [rows[r][c]]) for r in range(n) for c in (0, lens[r] - 1)))
    chk('max', lambda: a.max() == flat.max())
    chk('min', lambda: a.min() == flat.min())
    chk('any', lambda: bool(a.any()) == bool(flat.any()))
    chk('all', lambda: bool(a.all()) == bool(flat.all()))
    chk('eq', lambda: bool((a == R([r.copy() for r in rows])).all()))
    chk('shape', lambda: a.shape[0] == n and a.shape[1] == (
        lens[0] if len(set(lens)) == 1 else None))
    # slot coherence
    def slots():
        arr = a._array
        if len(arr) != n:
            return False
        for i in range(n):
            if not eqv(arr[i], rows[i]):
                return False
        return eqv(a._data, flat) and list(a.lengths) == lens
    chk('slots', slots)
    if not bad:
        dt = a._data.dtype
        if dt != rows[0].dtype:
            bad.append(('ra.dtype-drift', 'dtype of the array became %s '
                        '(model rows are %s) after %s' % (
                            dt, rows[0].dtype, where)))
    return bad


def gen_op(rng, rows, fresh):
    """Return (opname, args) describing one step valid on the model."""
    n = len(rows)
    lens = [len(r) for r in rows]
    ops = ['elem', 'elem', 'paired_reuse', 'row_same', 'row_diff',
           'row_same_x', 'swap_rows', 'clone',
           'int_slice', 'twod_scalar',
           'twod_rows', 'twod_ra', 'slice_int', 'mask_scalar', 'mask_vals',
           'paired', 'append_list', 'append_ra', 'binop', 'rbinop', 'cmp',
           'invert', 'aug', 'copyctor', 'list_slice']
    op = ops[int(rng.integers(0, len(ops)))]
    if op == 'elem':
        r = int(rng.integers(-n, n))
        c = int(rng.integers(-lens[r], lens[r]))
        return op, (r, c, fresh.take(1)[0])
    if op == 'row_same':
        r = int(rng.integers(-n, n))
        return op, (r, fresh.take(lens[r]))
    if op == 'row_same_x':
        # a row of the same length whose values the array's element type
        # cannot hold (fractions into an integer array)
        r = int(rng.integers(-n, n))
        return op, (r, fresh.take(lens[r]).astype(np.float64) + 0.5)
    if op == 'swap_rows':
        # two row assignments that exchange two rows (lengths usually
        # differ): row count and element count are the same afterwards
        if n < 2:
            return 'row_same', (0, fresh.take(lens[0]))
        r1, r2 = (int(x) for x in rng.choice(n, size=2, replace=False))
        return op, (r1, r2)
    if op == 'clone':
        # the history continues on a pickled / deep-copied instance
        return op, (['pickle', 'deepcopy'][int(rng.integers(0, 2))],)
    if op == 'row_diff':
        r = int(rng.integers(-n, n))
        # a length-1 value legitimately broadcasts over a rectangular row
        L = int(rng.integers(2, 7))
        return op, (r, fresh.take(L))
    if op == 'int_slice':
        r = int(rng.integers(-n, n))
        a_, b_ = sorted(int(x) for x in rng.integers(0, lens[r] + 1, size=2))
        if a_ == b_:
            a_, b_ = 0, lens[r]
        return op, (r, slice(a_, b_), fresh.take(b_ - a_))
    if op in ('twod_scalar', 'twod_rows', 'twod_ra', 'list_slice'):
        ra_, rb_ = sorted(int(x) for x in rng.integers(0, n + 1, size=2))
        if ra_ == rb_:
            ra_, rb_ = 0, n
        rs = slice(ra_, rb_)
        if op == 'list_slice':
            rs = sorted({int(x) for x in rng.integers(0, n, size=max(1, n // 2))})
        stop = int(rng.integers(1, max(lens) + 1))
        start = int(rng.integers(0, stop))
        cs = [slice(start, stop), slice(None, stop), slice(start, None),
              slice(None, None), slice(None, -1), slice(start, None, 2)][
            int(rng.integers(0, 6))]
        sel = list(range(n))[rs] if isinstance(rs, slice) else rs
        sizes = [len(range(*cs.indices(lens[r]))) for r in sel]
        if sum(sizes) == 0:
            return 'elem', (0, 0, fresh.take(1)[0])
        if op == 'twod_scalar':
            return op, (rs, cs, fresh.take(1)[0])
        vals = [fresh.take(k) for k in sizes]
        if any(k == 0 for k in sizes):
            return 'twod_scalar', (rs, cs, fresh.take(1)[0])
        return op, (rs, cs, vals)
    if op == 'slice_int':
        m = min(lens)
        c = int(rng.integers(-m, m))
        ra_, rb_ = sorted(int(x) for x in rng.integers(0, n + 1, size=2))
        if ra_ == rb_:
            ra_, rb_ = 0, n
        return op, (slice(ra_, rb_), c, fresh.take(rb_ - ra_))
    if op in ('mask_scalar', 'mask_vals'):
        p = [0.3, 0.6, 1.0][int(rng.integers(0, 3))]
        mrows = [rng.random(L) < p for L in lens]
        k = int(sum(m.sum() for m in mrows))
        if k == 0:
            mrows[0][0] = True
            k = 1
        if op == 'mask_scalar':
            return op, (mrows, fresh.take(1)[0])
        return op, (mrows, fresh.take(k))
    if op == 'paired_reuse':
        return op, (fresh.take(2),)
    if op == 'paired':
        k = min(int(rng.integers(1, 5)), sum(lens))
        cells = set()
        while len(cells) < k:
            r = int(rng.integers(0, n))
            cells.add((r, int(rng.integers(0, lens[r]))))
        cells = sorted(cells)
        neg = rng.random() < 0.5
        rs = [r - n if neg else r for r, c in cells]
        cs = [c - lens[r] if neg else c for r, c in cells]
        return op, (rs, cs, fresh.take(k))
    if op in ('append_list', 'append_ra'):
        k = int(rng.integers(1, 4))
        newrows = [fresh.take(int(rng.integers(1, 6))) for _ in range(k)]
        if rng.random() < 0.35:
            # rows of a wider element type (fractions onto an integer or
            # boolean array): the grown array takes the common type
            newrows = [x.astype(np.float64) + 0.5 for x in newrows]
        return op, (newrows,)
    if op in ('binop', 'rbinop', 'aug'):
        # division-like operators only where the divisor is a non-zero
        # constant / array (reflected forms would divide by the data)
        o = ['add', 'sub', 'mul', 'truediv', 'floordiv', 'mod'][
            int(rng.integers(0, 6 if op == 'binop' else 3))]
        other = 'scalar' if (op == 'rbinop' or rng.random() < 0.5) else 'ra'
        return op, (o, other, int(rng.integers(2, 5)))
    if op == 'cmp':
        o = ['eq', 'ne', 'lt', 'le', 'gt', 'ge'][int(rng.integers(0, 6))]
        return op, (o, 'scalar' if rng.random() < 0.5 else 'ra',
                    int(rng.integers(0, 3000)))
    if op == 'invert':
        return op, ()
    if op == 'copyctor':
        return op, (['self', 'src'][int(rng.integers(0, 2))],)
    raise AssertionError(op)


PYOP = {'add': lambda x, y: x + y, 'sub': lambda x, y: x - y,
        'mul': lambda x, y: x * y, 'truediv': lambda x, y: x / y,
        'floordiv': lambda x, y: x // y, 'mod': lambda x, y: x % y,
        'eq': lambda x, y: x == y,
        'ne': lambda x, y: x != y, 'lt': lambda x, y: x < y,
        'le': lambda x, y: x <= y, 'gt': lambda x, y: x > y,
        'ge': lambda x, y: x >= y}


def same_struct(ctx, res, mrows, what):
    """Operator result must be a new RaggedArray with model values."""
    if type(res).__name__ != 'RaggedArray':
        return [('ra.operator.not-ragged', '%s returned %r' % (what, type(res)))]
    return observe(ctx, res, mrows, what)


def run_case(ctx, kind, rng, idx):
    dtype = [np.int64, np.float64][int(rng.integers(0, 2))]
    rows = M.make_rows(rng, dtype=dtype, maxlen=6)
    rows = [r.copy() for r in rows]
    init_lens = [len(r) for r in rows]
    how = int(rng.integers(0, 3))
    srcs = None
    if how == 0:
        a = R([r.copy() for r in rows])
        hown = 'list-of-arrays'
    elif how == 1:
        srcs = np.concatenate(rows)
        hown = 'flat+lengths(copy)'
        if rng.random() < 0.3:
            big = np.zeros(2 * len(srcs), dtype=srcs.dtype)
            big[1::2] = srcs
            srcs = big[1::2]
            hown = 'flat[strided]+lengths(copy)'
        a = R(srcs, lengths=list(init_lens) if rng.random() < 0.5
              else np.array(init_lens))
    else:
        a = R([r.tolist() for r in rows])
        hown = 'nested-lists'
    src_keep = srcs.copy() if srcs is not None else None
    fresh = Fresh(dtype)
    reuse_keep = (np.array([-1, 0]), np.array([-1, -1]))
    reuse_idx = [reuse_keep[0].copy(), reuse_keep[1].copy()]
    nsteps = int(rng.integers(1, 31))
    hist = []
    kinds = set()
    structural = False
    desc = {'lens': init_lens, 'dtype': np.dtype(dtype).name, 'how': hown,
            'history': hist}
    ctx.describe(desc)
    bad = observe(ctx, a, rows, 'construction')
    for k, m in bad:
        ctx.violation(k, m + ' [after construction]')
    if bad:
        return
    for step in range(nsteps):
        op, args = gen_op(rng, rows, fresh)
        hist.append([op, repr(args)[:160]])
        ctx.seen('ops', op)
        n = len(rows)
        bad = []
        exc = None
        mutating = True
        new_rows = [r.copy() for r in rows]
        try:
            if op == 'elem':
                r, c, v = args
                new_rows[r][c] = v
                a[r, c] = v
            elif op in ('row_same', 'row_diff'):
                r, v = args
                new_rows[r] = v.copy()
                a[r] = v.copy()
            elif op == 'row_same_x':
                r, v = args
                new_rows[r] = v.copy()
                # the array has one element type: that of the concatenated
                # model rows
                rt = np.result_type(*[x.dtype for x in new_rows])
                new_rows = [x.astype(rt) for x in new_rows]
                a[r] = v.copy() if step % 2 else v.tolist()
            elif op == 'clone':
                import copy as _copy
                import pickle as _pickle
                (how_,) = args
                a = _pickle.loads(_pickle.dumps(a)) if how_ == 'pickle' \
                    else _copy.deepcopy(a)
            elif op == 'swap_rows':
                r1, r2 = args
                x1, x2 = rows[r1].copy(), rows[r2].copy()
                new_rows[r1], new_rows[r2] = x2.copy(), x1.copy()
                a[r1] = x2
                a[r2] = x1
                if len(x1) != len(x2):
                    structural = True
            elif op == 'int_slice':
                r, s, v = args
                new_rows[r][s] = v
                a[r, s] = v.copy()
            elif op in ('twod_scalar', 'twod_rows', 'twod_ra', 'list_slice'):
                rs, cs, v = args
                sel = list(range(n))[rs] if isinstance(rs, slice) else rs
                for i, r in enumerate(sel):
                    if op == 'twod_scalar':
                        new_rows[r][cs] = v
                    else:
                        new_rows[r][cs] = v[i]
                if op == 'twod_scalar':
                    a[rs, cs] = v
                elif op == 'twod_ra':
                    a[rs, cs] = R([x.copy() for x in v])
                else:
                    a[rs, cs] = [x.copy() for x in v]
            elif op == 'slice_int':
                rs, c, v = args
                for i, r in enumerate(range(n)[rs]):
                    new_rows[r][c] = v[i]
                a[rs, c] = v.copy()
            elif op in ('mask_scalar', 'mask_vals'):
                mrows, v = args
                pos = 0
                for r, m in enumerate(mrows):
                    k = int(m.sum())
                    if op == 'mask_scalar':
                        new_rows[r][m] = v
                    else:
                        new_rows[r][m] = v[pos:pos + k]
                    pos += k
                a[R([m.copy() for m in mrows])] = (
                    v if op == 'mask_scalar' else v.copy())
            elif op == 'paired_reuse':
                # the same two index arrays ("last row, last element" and
                # "first row, last element") are reused all through the
                # history, across appends and row-length changes
                (v,) = args
                for r, c, x in zip(reuse_keep[0], reuse_keep[1], v):
                    new_rows[r][c] = x
                a[(reuse_idx[0], reuse_idx[1])] = v.copy()
                if not (np.array_equal(reuse_idx[0], reuse_keep[0]) and
                        np.array_equal(reuse_idx[1], reuse_keep[1])):
                    bad.append(('ra.write.mutates-index',
                                'index arrays %s/%s became %s/%s' % (
                                    reuse_keep[0].tolist(),
                                    reuse_keep[1].tolist(),
                                    reuse_idx[0].tolist(),
                                    reuse_idx[1].tolist())))
                    reuse_idx[0][...] = reuse_keep[0]
                    reuse_idx[1][...] = reuse_keep[1]
            elif op == 'paired':
                rs, cs, v = args
                for r, c, x in zip(rs, cs, v):
                    new_rows[r][c] = x
                a[(list(rs), list(cs))] = v.copy()
            elif op in ('append_list', 'append_ra'):
                (nr,) = args
                new_rows = new_rows + [x.copy() for x in nr]
                rt = np.result_type(*[x.dtype for x in new_rows])
                new_rows = [x.astype(rt) for x in new_rows]
                if op == 'append_ra':
                    a.append(R([x.copy() for x in nr]))
                else:
                    a.append([x.copy() for x in nr])
                structural = True
            elif op in ('binop', 'rbinop', 'aug', 'cmp'):
                mutating = op == 'aug'
                o, other, k = args
                f = PYOP[o]
                if other == 'scalar':
                    orows, oth = None, k
                else:
                    orows = [r * 0 + k + i for i, r in enumerate(rows)]
                    oth = R([x.copy() for x in orows])
                from vf.monitor import Frozen
                fz = Frozen(a, oth)
                if op == 'rbinop':
                    res = f(oth, a)
                    mres = [f(oth, r) for r in rows]
                else:
                    res = f(a, oth)
                    mres = [f(r, oth if orows is None else orows[i])
                            for i, r in enumerate(rows)]
                ch = fz.changed()
                if ch:
                    bad.append(('ra.operator.mutates-operand',
                                '%s altered operand(s) %s' % (o, ch)))
                if res is a or (orows is not None and res is oth):
                    bad.append(('ra.operator.returns-operand',
                                '%s returned one of its operands' % o))
                if type(res).__name__ == 'RaggedArray' and (
                        np.shares_memory(res._data, a._data)):
                    bad.append(('ra.operator.aliases-operand',
                                '%s result shares memory with operand' % o))
                bad += same_struct(ctx, res, mres, '%s(%s)' % (o, other))
                ctx.count('operator_results_checked')
                if op != 'aug' and type(res).__name__ == 'RaggedArray' and \
                        len(rows) > 1 and step % 3 == 0:
                    # editing the result (its bookkeeping included) must not
                    # reach the operands
                    res.lengths[...] = res.lengths[::-1].copy()
                    res._data[...] = 0
                    bad += [(k_.replace('ra.view', 'ra.operator.result-aliases'
                                        '-operand'), m_) for k_, m_ in
                            observe(ctx, a, rows, 'edit of operator result')]
                if op == 'aug':
                    old = a
                    old_rows = rows
                    a = res
                    new_rows = [np.asarray(x) for x in mres]
                    # the object that was rebound must still show old content
                    bad += [(k_, 'old object after augmented op: ' + m_)
                            for k_, m_ in observe(ctx, old, old_rows, 'aug')]
            elif op == 'invert':
                mutating = False
                mrows = [rng.random(len(r)) < 0.5 for r in rows]
                b = R([m.copy() for m in mrows])
                res = ~b
                bad += same_struct(ctx, res, [~m for m in mrows], 'invert')
                bad += [(k_, 'operand of ~: ' + m_)
                        for k_, m_ in observe(ctx, b, mrows, 'invert')]
            elif op == 'copyctor':
                mutating = False
                (side,) = args
                flat = np.concatenate(rows)
                lens = [len(r) for r in rows]
                lens_arr = np.array(lens)
                b = R(flat, lengths=lens_arr if step % 2 else lens)
                if step % 2:
                    # the caller recycles its lengths buffer afterwards
                    lens_arr[...] = 1
                    lens_arr[0] = sum(lens) - (len(lens) - 1)
                if side == 'src':
                    flat[...] = -7
                    bad += [(k_.replace('ra.view', 'ra.copy.aliases-source'),
                             m_) for k_, m_ in observe(ctx, b, rows, 'copy')]
                else:
                    keep = flat.copy()
                    b[0, 0] = flat[0] + 12345
                    if not np.array_equal(flat, keep):
                        bad.append(('ra.copy.aliases-source',
                                    'writing the copy changed the source'))
                ctx.count('copy_checks')
        except Exception as e:  # noqa
            exc = e
        ctx.count('ops_applied')
        if exc is not None:
            # state must still be coherent with the model *before* the op
            after = observe(ctx, a, rows, op)
            if op == 'row_diff' and not after:
                ctx.count('rejected_row_length_change')
                continue
            ctx.violation(
                'ra.write.%s.raised' % op,
                'step %d %s%s valid on the model raised %s: %s' % (
                    step, op, repr(args)[:200], type(exc).__name__,
                    str(exc)[:200]))
            return
        if mutating:
            kinds.add(op)
            if op == 'row_diff' and len(args[1]) != len(rows[args[0]]):
                structural = True
            # one element type for the whole array: that of the
            # concatenated model rows
            rt = np.result_type(*[x.dtype for x in new_rows])
            rows = [x if x.dtype == rt else x.astype(rt) for x in new_rows]
        bad += observe(ctx, a, rows, op)
        if src_keep is not None and not np.array_equal(srcs, src_keep):
            bad.append(('ra.copy.aliases-source',
                        'mutating the array changed the caller\'s source data'))
        if bad:
            seen = set()
            for k, m in bad:
                if k in seen:
                    continue
                seen.add(k)
                ctx.violation(k.replace('ra.view.', 'ra.write.%s.view-' % op)
                              if k.startswith('ra.view.') else k,
                              'step %d %s: %s' % (step, op, m))
            if any(k != 'ra.dtype-drift' for k, _ in bad):
                return
    if len(kinds) >= 3 and (len(set(init_lens)) > 1 or structural):
        ctx.nontriv(init_lens, tuple(h[0] for h in hist), hown)
    if idx % 500 == 0:
        ctx.sample(desc)
