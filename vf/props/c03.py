"""C03 - transition counts equal the exact number of lagged state pairs."""
import collections

import numpy as np

RULE = ('cases = seeded sets of 1-8 integer trajectories (lengths 1-40 incl. '
        'shorter than the lag, 1-7 states or up to 400 state ids in '
        'int8/uint8/int16/uint16/int32, disjoint per-trajectory alphabets '
        'in a third of cases) x lag 1-45 x sliding on/off x explicit/inferred '
        'state count, each counted in up to 5 presentations (ragged, -1 padded, '
        'rectangular, shuffled, split halves) and through MSM.fit; '
        'non-trivial = >=2 trajectories of different length with at least one '
        'counted pair and at least one trajectory not longer than the lag or '
        'a non-sliding count; distinct by (lengths, lag, sliding, n_states, '
        'content hash)')
REQUIRED = ['assigns_to_counts_calls', 'matrices_compared']
ASSUMPTIONS = ['oracle = explicit enumeration of index pairs (t, t+lag) per '
               'trajectory, exactly the definition in the property']


def shards(tier):
    if tier == 'quick':
        return [dict(kind='counts', n=6400, parts=16, timeout=900),
                dict(kind='many', n=2, parts=2, timeout=900, start=900000)]
    return [dict(kind='counts', n=240000, parts=16, timeout=3000),
            dict(kind='many', n=24, parts=8, timeout=3000, start=900000)]


def setup(ctx):
    global tm, R, MSM, builders
    from enspara.msm import transition_matrices as _tm
    from enspara.msm import builders as _b
    from enspara.msm.msm import MSM as _MSM
    from enspara.ra.ra import RaggedArray as _R
    from vf import monitor
    tm, R, MSM, builders = _tm, _R, _MSM, _b
    ctx.h_a2c = monitor.attach(tm, 'assigns_to_counts')
    ctx.h_helper = monitor.attach(tm, '_transitions_helper')


def teardown(ctx):
    ctx.count('assigns_to_counts_calls', ctx.h_a2c.calls)
    ctx.count('transitions_helper_calls', ctx.h_helper.calls)


def oracle(trajs, lag, sliding, n_states):
    C = np.zeros((n_states, n_states), dtype=np.int64)
    step = 1 if sliding else lag
    for t in trajs:
        L = len(t)
        i = 0
        while i + lag < L:
            C[t[i], t[i + lag]] += 1
            i += step
    return C


def run_many(ctx, rng, idx):
    """Very many (short) trajectories in one call: 70 000 - 140 000, i.e.
    beyond any block size an implementation may process them in."""
    N = int(rng.integers(70000, 140000))
    if idx % 2:
        N = int(rng.integers(100001, 100200))
    nst = int(rng.integers(2, 6))
    lens = rng.integers(1, 6, size=N)
    lag = int(rng.integers(1, 3))
    sliding = bool(rng.random() < 0.7)
    pad = -np.ones((N, 5), dtype=np.int16)
    vals = rng.integers(0, nst, size=(N, 5)).astype(np.int16)
    mask = np.arange(5)[None, :] < lens[:, None]
    pad[mask] = vals[mask]
    # the last trajectories carry a state of their own: dropping them empties
    # whole cells
    tail = np.arange(N - 40, N)
    pad[tail, 0] = nst
    pad[tail, 1] = nst
    lens = np.maximum(lens, 0)
    lens[tail] = np.maximum(lens[tail], 2)
    pad[tail, 2:][np.arange(5)[None, 2:] >= lens[tail][:, None]] = -1
    ctx.describe({'n_trajectories': N, 'lag': lag, 'sliding': sliding,
                  'n_states': nst + 1})
    ns = nst + 1
    # vectorised oracle over explicit (t, t+lag) index pairs
    exp = np.zeros((ns, ns), dtype=np.int64)
    step = 1 if sliding else lag
    for i in range(0, 5 - lag, step):
        ok = (i + lag) < lens
        np.add.at(exp, (pad[ok, i], pad[ok, i + lag]), 1)
    try:
        C = tm.assigns_to_counts(pad, lag, max_n_states=ns,
                                 sliding_window=sliding)
    except Exception as e:  # noqa
        ctx.violation('counts.many.raised', '%d trajectories: %s: %s' % (
            N, type(e).__name__, str(e)[:200]))
        return
    ctx.count('matrices_compared')
    ctx.count('many_trajectory_cases')
    got = np.asarray(C.toarray() if hasattr(C, 'toarray') else C)
    if got.shape != exp.shape or not np.array_equal(got, exp):
        ctx.violation('counts.many.wrong',
                      '%d trajectories: total %d, expected %d; cells differ '
                      'at %s' % (N, int(got.sum()), int(exp.sum()),
                                 np.argwhere(got != exp)[:4].tolist()
                                 if got.shape == exp.shape else got.shape))
    ctx.nontriv('many', N, lag, sliding)


def run_case(ctx, kind, rng, idx):
    from vf.monitor import Frozen
    if kind == 'many':
        return run_many(ctx, rng, idx)
    ntraj = int(rng.integers(1, 9))
    nst = int(rng.integers(1, 8))
    mode = int(rng.integers(0, 4))
    if mode == 0:
        lens = [int(rng.integers(1, 41))] * ntraj
    else:
        lens = [int(x) for x in rng.integers(1, 41, size=ntraj)]
    disjoint = rng.random() < 0.33
    wide = (not disjoint) and rng.random() < 0.25
    if rng.random() < 0.015:
        # one very long trajectory: frame numbers and counts beyond the range
        # of the narrow integer types states are stored in
        ntraj = min(ntraj, 3)
        lens = lens[:ntraj]
        lens[int(rng.integers(0, ntraj))] = int(rng.integers(33000, 70001))
        ctx.count('long_trajectory_cases')
    trajs = []
    if wide:
        # large state ids in narrow integer types (few states visited)
        wdt, top = [(np.int8, 127), (np.uint8, 255), (np.int16, 400),
                    (np.uint16, 400), (np.int32, 400)][int(rng.integers(0, 5))]
        nst = int(rng.integers(12, top + 1))
        visited = rng.choice(nst, size=min(nst, int(rng.integers(2, 6))),
                             replace=False)
        if rng.random() < 0.7:
            visited[0] = nst - 1
    for i, L in enumerate(lens):
        if disjoint:
            # every trajectory uses its own alphabet: a pair spanning two
            # trajectories lands in an otherwise impossible cell
            t = rng.integers(0, 2, size=L) + 2 * i
        elif wide:
            t = visited[rng.integers(0, len(visited), size=L)]
        else:
            t = rng.integers(0, nst, size=L)
        if wide:
            trajs.append(t.astype(wdt))
        else:
            trajs.append(t.astype([np.int64, np.int32, np.int16][
                int(rng.integers(0, 3))] if not disjoint else np.int64))
    # lags: straddle the trajectory lengths
    cand = [1, 2, 3] + [max(1, L + d) for L in lens for d in (-1, 0, 1)]
    lag = int(cand[int(rng.integers(0, len(cand)))]) if rng.random() < 0.6 \
        else int(rng.integers(1, 46))
    sliding = bool(rng.random() < 0.6)
    observed = int(max(t.max() for t in trajs)) + 1
    explicit = rng.random() < 0.5
    n_states = observed + int(rng.integers(0, 4)) if explicit else None
    ns = n_states if explicit else observed
    exp = oracle(trajs, lag, sliding, ns)
    desc = {'lens': lens, 'lag': lag, 'sliding': sliding, 'n_states': n_states,
            'disjoint_alphabets': disjoint, 'dtype': str(trajs[0].dtype),
            'wide_alphabet': wide,
            'trajs': [t.tolist() for t in trajs] if sum(lens) < 80 else 'elided'}
    ctx.describe(desc)
    if idx % 1500 == 0:
        ctx.sample(desc)

    def call(name, assigns, expected):
        fz = Frozen(assigns)
        try:
            C = tm.assigns_to_counts(
                assigns, lag, max_n_states=n_states,
                sliding_window=[sliding, np.bool_(sliding),
                                int(sliding)][idx % 3])
        except Exception as e:  # noqa
            ctx.violation('counts.%s.raised' % name,
                          '%s presentation raised %s: %s' % (
                              name, type(e).__name__, e))
            return None
        ctx.count('matrices_compared')
        got = np.asarray(C.toarray() if hasattr(C, 'toarray') else C)
        if got.shape != expected.shape:
            ctx.violation('counts.%s.shape' % name,
                          'shape %s expected %s' % (got.shape, expected.shape))
            return None
        if not np.array_equal(got, expected):
            d = np.argwhere(got != expected)[:5].tolist()
            ctx.violation(
                'counts.%s.wrong' % name,
                '%s presentation: counts differ at cells %s (got %s expected '
                '%s); total %d vs %d' % (
                    name, d, [int(got[i, j]) for i, j in d],
                    [int(expected[i, j]) for i, j in d], got.sum(),
                    expected.sum()))
            return None
        if fz.changed():
            ctx.violation('counts.%s.mutates-input' % name,
                          'assignments modified by assigns_to_counts')
        return got

    # ragged presentation
    a_r = R([t.copy() for t in trajs])
    got = call('ragged', a_r, exp)
    # total under sliding window
    if got is not None and sliding:
        tot = sum(max(0, L - lag) for L in lens)
        if int(got.sum()) != tot:
            ctx.violation('counts.total', 'total %d != sum max(0,len-lag) %d'
                          % (got.sum(), tot))
    # padded rectangle
    maxL = max(lens)
    pdt = np.int64
    if wide and np.issubdtype(trajs[0].dtype, np.signedinteger):
        pdt = trajs[0].dtype          # keep the narrow type when -1 fits
    pad = -np.ones((ntraj, maxL + int(rng.integers(0, 3))), dtype=pdt)
    for i, t in enumerate(trajs):
        pad[i, :len(t)] = t
    call('padded', pad, exp)
    # one long-lived padded buffer, refilled in place from case to case and
    # handed to the library as the very same object (callers reuse batch
    # buffers): the result may only depend on the current contents
    if ntraj <= 8 and maxL <= 44 and not wide:
        buf = getattr(ctx, 'reuse_pad', None)
        if buf is None:
            buf = ctx.reuse_pad = -np.ones((8, 44), dtype=np.int64)
        buf[...] = -1
        for i, t in enumerate(trajs):
            buf[i, :len(t)] = t
        call('reused-buffer', buf, exp)
        # ... and again straight away with other contents (time-reversed
        # trajectories), nothing else called in between
        rev = [t[::-1].copy() for t in trajs]
        for i, t in enumerate(rev):
            buf[i, :len(t)] = t
        call('reused-buffer', buf, oracle(rev, lag, sliding, ns))
        ctx.count('reused_buffer_calls', 2)
    # rectangular plain array
    if len(set(lens)) == 1:
        call('rect', np.array([t if wide else t.astype(np.int64)
                               for t in trajs]), exp)
    # shuffled order
    if ntraj > 1:
        perm = rng.permutation(ntraj)
        call('shuffled', R([trajs[i].copy() for i in perm]), exp)
        # additivity over a split (explicit n so shapes agree)
        k = int(rng.integers(1, ntraj))
        try:
            A = tm.assigns_to_counts(R([t.copy() for t in trajs[:k]]), lag,
                                     max_n_states=ns, sliding_window=sliding)
            B = tm.assigns_to_counts(R([t.copy() for t in trajs[k:]]), lag,
                                     max_n_states=ns, sliding_window=sliding)
            ctx.count('matrices_compared')
            if not np.array_equal(A.toarray() + B.toarray(), exp):
                ctx.violation('counts.additivity',
                              'C(A)+C(B) != C(A u B) for split at %d' % k)
        except Exception as e:  # noqa
            ctx.violation('counts.split.raised', '%s: %s' % (
                type(e).__name__, e))
    # through the estimator (sliding window only here; C16 owns the
    # constructor-argument plumbing)
    if sliding and idx % 4 == 0:
        try:
            if rng.random() < 0.3:
                # constructed with other settings, then re-configured through
                # its public attributes (a lag-time scan reusing one object)
                m = MSM(lag_time=lag + 1 + int(rng.integers(0, 3)),
                        method=builders.normalize, max_n_states=None,
                        sliding_window=False)
                m.lag_time = lag
                m.max_n_states = n_states
                m.sliding_window = True
                ctx.count('msm_reconfigured')
            else:
                m = MSM(lag_time=lag, method=builders.normalize,
                        max_n_states=n_states)
            if rng.random() < 0.5:
                # the estimator has been fitted before, on other data with
                # another number of states: nothing of that may carry over
                top = int(rng.integers(1, observed + 4))
                other = [rng.integers(0, top + 1, size=int(
                    rng.integers(lag + 1, lag + 30))) for _ in range(2)]
                other[0][0] = top
                try:
                    m.fit(R(other))
                    ctx.count('msm_prefitted')
                except Exception:  # noqa - only the second fit is judged
                    pass
            m.fit(R([t.copy() for t in trajs]))
            ctx.count('matrices_compared')
            tc = m.tcounts_
            tc = tc.toarray() if hasattr(tc, 'toarray') else np.asarray(tc)
            if tc.shape != exp.shape or not np.array_equal(tc, exp):
                ctx.violation('counts.msm.wrong',
                              'MSM.fit(...).tcounts_ differs from the pair '
                              'count')
        except Exception as e:  # noqa
            ctx.violation('counts.msm.raised', '%s: %s' % (
                type(e).__name__, e))
    if ntraj >= 2 and len(set(lens)) > 1 and exp.sum() > 0 and (
            min(lens) <= lag or not sliding):
        ctx.nontriv(lens, lag, sliding, n_states,
                    hash(tuple(int(x) for t in trajs for x in t)))
