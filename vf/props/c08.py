"""C08 - reactive flux obeys its definition and is conserved."""
import numpy as np
import scipy.sparse as sp

from vf import msmcommon as mc

RULE = ('cases = seeded ergodic reversible chains (n 3-30) with stationary '
        'populations given or computed x disjoint source/sink sets x container '
        '(ndarray, csr, csc, coo, lil); non-trivial = >=2 sources or >=2 '
        'sinks, >=3 intermediate states and a net-flux matrix with >=n '
        'positive entries; distinct by (matrix hash, sources, sinks)')
REQUIRED = ['flux_calls', 'netflux_calls', 'reactive_pop_calls',
            'conservation_checked']
ASSUMPTIONS = ['committors re-verified by first-step residual before use',
               'tolerance 1e-10 absolute on fluxes (populations sum to 1)']
CONT = ['ndarray', 'csr', 'csc', 'coo', 'lil']


def shards(tier):
    if tier == 'quick':
        return [dict(kind='flux', n=1600, parts=16, timeout=900),
                dict(kind='large', n=8, parts=4, timeout=900, start=900000)]
    return [dict(kind='flux', n=48000, parts=16, timeout=3400),
            dict(kind='large', n=120, parts=8, timeout=3400, start=900000)]


def setup(ctx):
    global tpt, core
    from enspara.tpt import tpt as _t, core as _c
    from vf import monitor
    tpt, core = _t, _c
    ctx.h_f = monitor.attach(tpt, 'reactive_fluxes')
    ctx.h_n = monitor.attach(tpt, 'net_fluxes')
    ctx.h_p = monitor.attach(tpt, 'reactive_populations')


def teardown(ctx):
    ctx.count('flux_calls', ctx.h_f.calls)
    ctx.count('netflux_calls', ctx.h_n.calls)
    ctx.count('reactive_pop_calls', ctx.h_p.calls)


def run_case(ctx, kind, rng, idx):
    from vf.monitor import Frozen
    from vf.props.c07 import gen_sets
    conts = CONT
    if kind == 'large':
        # >= 1000 states in a sparse container: the stationary distribution
        # comes from the sparse (ARPACK) eigen-solver instead of LAPACK; a
        # slowly mixing chain, so that solver has real work to do
        Cs = mc.large_metastable_counts(rng, symmetric=True)
        rs_ = np.asarray(Cs.sum(axis=1)).ravel().astype(float)
        T = Cs.toarray() / rs_[:, None]
        pi = rs_ / rs_.sum()
        conts = ['csr', 'csc']
        ctx.count('large_sparse_cases')
    else:
        T, pi = mc.reversible_chain(rng, nmin=2, nmax=30)
        if rng.random() < 0.06:
            # almost - not exactly - symmetric: populations within 1e-6 of
            # uniform (no shortcut for "symmetric" matrices applies)
            n_ = len(T)
            G = rng.random((n_, n_))
            S_ = 1.0 + 1e-5 * (G + G.T) + np.eye(n_)
            rs_ = S_.sum(axis=1)
            T, pi = S_ / rs_[:, None], rs_ / rs_.sum()
            ctx.count('nearly_symmetric_chains')
    n = len(T)
    src, snk = gen_sets(rng, n)
    if kind == 'large':
        src, snk = src[:3], snk[:3]
    give_pops = bool(rng.random() < (0.25 if kind == 'large' else 0.5))
    desc = {'n': n, 'sources': src, 'sinks': snk, 'populations_given':
            give_pops, 'T': T if n <= 6 else 'elided'}
    ctx.describe(desc)
    inter = [i for i in range(n) if i not in src and i not in snk]
    # reference committor by dense solve + residual
    q = np.zeros(n)
    q[snk] = 1
    if inter:
        A = np.eye(len(inter)) - T[np.ix_(inter, inter)]
        b = T[np.ix_(inter, snk)].sum(axis=1)
        q[inter] = np.linalg.solve(A, b)
        if np.abs(q[inter] - T[inter] @ q).max() > 1e-9:
            ctx.count('ambiguous_ill_conditioned')
            return
    F = pi[:, None] * (1 - q)[:, None] * T * q[None, :]
    F[np.diag_indices(n)] = 0
    N = np.maximum(F - F.T, 0)
    tol = 1e-10
    res = {}
    for cname in conts:
        Tin = mc.to_container(T, cname, rng)
        pops = pi.copy() if give_pops else None
        if give_pops and idx % 5 == 0:
            pops = pi.tolist()            # a plain list of populations
        fmt = [list, tuple, np.array][idx % 3]
        src_a, snk_a = fmt(src), fmt(snk)
        fz = Frozen(Tin, pops, src_a, snk_a)
        out = {}
        for nm, fn in (('flux', tpt.reactive_fluxes),
                       ('net', tpt.net_fluxes),
                       ('rpop', tpt.reactive_populations)):
            try:
                out[nm] = fn(Tin, src_a, snk_a, populations=pops)
            except Exception as e:  # noqa
                ctx.violation('%s.raised[%s]' % (nm, 'dense' if cname ==
                                                 'ndarray' else 'sparse'),
                              '%s: %s: %s' % (cname, type(e).__name__,
                                              str(e)[:200]))
        if fz.changed():
            ctx.violation('flux.mutates-input', '%s: %s' % (
                cname, fz.changed()))
        if 'flux' in out:
            f = mc.dense(out['flux']).astype(float)
            if f.shape != (n, n) or np.abs(f - F).max() > tol:
                ctx.violation('flux.not-definition',
                              '[%s] f_ij != pi_i q-_i T_ij q+_j, max diff %.3g'
                              % (cname, np.abs(f - F).max()
                                 if f.shape == (n, n) else -1))
            elif np.abs(np.diag(f)).max() != 0:
                ctx.violation('flux.diagonal', '[%s] diagonal not zero' % cname)
        if 'net' in out:
            nf = mc.dense(out['net']).astype(float)
            ctx.count('conservation_checked')
            if nf.shape != (n, n) or np.abs(nf - N).max() > tol:
                ctx.violation('netflux.not-positive-part',
                              '[%s] net != max(f - f^T, 0), max diff %.3g' % (
                                  cname, np.abs(nf - N).max()
                                  if nf.shape == (n, n) else -1))
            else:
                if np.any(nf < 0):
                    ctx.violation('netflux.negative', '[%s]' % cname)
                if np.any((nf > 0) & (nf.T > 0)):
                    ctx.violation('netflux.both-directions', '[%s]' % cname)
                inflow, outflow = nf.sum(axis=0), nf.sum(axis=1)
                if inter and np.abs(inflow[inter] - outflow[inter]).max() > \
                        1e-9:
                    ctx.violation('netflux.not-conserved',
                                  '[%s] Kirchhoff imbalance %.3g at an '
                                  'intermediate state' % (cname, np.abs(
                                      inflow[inter] - outflow[inter]).max()))
                if np.abs(inflow[src]).max() > 1e-9 or \
                        np.abs(outflow[snk]).max() > 1e-9:
                    ctx.violation('netflux.into-source-or-out-of-sink',
                                  '[%s] in(src)=%.3g out(snk)=%.3g' % (
                                      cname, np.abs(inflow[src]).max(),
                                      np.abs(outflow[snk]).max()))
                if abs(outflow[src].sum() - inflow[snk].sum()) > 1e-9:
                    ctx.violation('netflux.total-mismatch',
                                  '[%s] out(sources) %.12g != in(sinks) %.12g'
                                  % (cname, outflow[src].sum(),
                                     inflow[snk].sum()))
            res[cname] = nf
        if 'rpop' in out:
            rp = np.asarray(out['rpop'], dtype=float).reshape(-1)
            dens = pi * q * (1 - q)
            # all intermediates have committor 0 or 1 (up to rounding):
            # the reactive density is 0/0, nothing to compare
            if dens.sum() <= 1e-12:
                ctx.count('ambiguous_zero_reactive_density')
            else:
                exp = dens / dens.sum()
                if rp.shape != (n,) or np.abs(rp - exp).max() > 1e-9 or \
                        np.any(rp < -1e-12) or abs(rp.sum() - 1) > 1e-9 or \
                        np.abs(rp[src + snk]).max() > 1e-12:
                    ctx.violation('reactive-populations.wrong',
                                  '[%s] not pi q+ q- normalised' % cname)
    # the same matrix object refilled in place (a sweep over models reusing
    # one buffer) with the same sources/sinks: results follow the contents
    if idx % 2 == 0 and kind != 'large':
        T2, pi2 = mc.reversible_chain(rng, n=n)
        q2 = np.zeros(n)
        q2[snk] = 1
        if inter:
            A2 = np.eye(len(inter)) - T2[np.ix_(inter, inter)]
            q2[inter] = np.linalg.solve(A2, T2[np.ix_(inter, snk)].sum(axis=1))
        F2 = pi2[:, None] * (1 - q2)[:, None] * T2 * q2[None, :]
        F2[np.diag_indices(n)] = 0
        for cname in ('ndarray', 'csr'):
            buf = mc.to_container(T, cname)
            try:
                tpt.net_fluxes(buf, src, snk, populations=pi.copy())
                if cname == 'ndarray':
                    buf[...] = T2
                else:
                    buf.data[:] = 0
                    buf = buf            # same object, new contents below
                    B2 = mc.to_container(T2, 'csr')
                    buf.indices, buf.indptr, buf.data = \
                        B2.indices.copy(), B2.indptr.copy(), B2.data.copy()
                f2 = mc.dense(tpt.reactive_fluxes(buf, src, snk,
                                                  populations=pi2.copy()))
                ctx.count('refilled_matrix_calls')
                if np.abs(np.asarray(f2, dtype=float) - F2).max() > tol:
                    ctx.violation('flux.stale-after-refill',
                                  '[%s] the same matrix object refilled with '
                                  'another chain: fluxes do not follow the '
                                  'new contents (max diff %.3g)' % (
                                      cname, np.abs(f2 - F2).max()))
            except Exception as e:  # noqa
                ctx.crash('flux.refill.raised', e)
    if 'ndarray' in res:
        for c, nf in res.items():
            if np.abs(nf - res['ndarray']).max() > tol:
                ctx.violation('netflux.container-dependent',
                              '%s differs from dense' % c)
    if (len(src) >= 2 or len(snk) >= 2) and len(inter) >= 3 and \
            (N > 0).sum() >= n:
        ctx.nontriv(T.tobytes(), src, snk, give_pops)
    if idx % 400 == 0:
        ctx.sample(desc)
