"""C20 - rotamer assignment is a correct hysteresis state machine; transition
bookkeeping reports exactly the frames where consecutive states differ."""
import numpy as np

RULE = ('cases = (a) seeded angle histories of 1-300 frames in [0,360): '
        'uniform, small-step random walks dwelling in buffers, approaches to '
        'the 0/360 seam and to each gate from both sides, square waves, '
        'angles on 1/5/10/30/60-degree grids (exactly on hard boundaries); '
        'boundary sets [0,180,360], [0,160,360], [0,120,240,360]; buffer '
        'widths 0 .. just below (360-widest basin)/2; angles kept off the '
        'exact gate values; (b) state sequences as 1-D, 2-D and ragged arrays '
        'with rows without transitions first/middle/last; (c) the '
        'whole-trajectory entry points (all_rotamers, RotamerFeaturizer on '
        '1-4 peptide trajectories, buffers 0-80) against the same machine; '
        'non-trivial = (a) '
        'history in which the buffered machine disagrees with plain binning '
        'at >=1 frame and the wrap-around basin is entered or left, (b) >=3 '
        'rows of which >=1 has no transition; distinct by content hash')
REQUIRED = ['rotamer_calls', 'is_buffered_calls', 'frames_compared',
            'transition_tables_checked']
ASSUMPTIONS = ['independent machine: stay iff ((a-(lo-b)) mod 360) < '
               '(hi-lo+2b), else re-bin by plain comparison',
               'buffer widths for which a widened basin covers the whole '
               'circle are outside "in range" and not generated']

BOUNDS = [[0, 180, 360], [0, 160, 360], [0, 120, 240, 360]]


def shards(tier):
    if tier == 'quick':
        return [dict(kind='rot', n=3200, parts=10, timeout=900),
                dict(kind='trans', n=3200, parts=4, timeout=900),
                dict(kind='feat', n=24, parts=2, timeout=900,
                     env={'OMP_NUM_THREADS': 1}),
                dict(kind='threads', n=12, parts=4, timeout=900,
                     start=950000)]
    return [dict(kind='rot', n=96000, parts=10, timeout=3400),
            dict(kind='trans', n=96000, parts=4, timeout=3400),
            dict(kind='feat', n=400, parts=2, timeout=3400,
                 env={'OMP_NUM_THREADS': 1}),
            dict(kind='threads', n=300, parts=8, timeout=3400, start=950000)]


def setup(ctx):
    global rotamer, disorder, R
    from enspara.geometry import rotamer as _r
    from enspara.cards import disorder as _d
    from enspara.ra.ra import RaggedArray as _R
    from vf import monitor
    rotamer, disorder, R = _r, _d, _R
    ctx.decisions = []

    def post(tok, a, k, res, exc):
        if exc is None:
            ctx.decisions.append(bool(res))
    ctx.h_rot = monitor.attach(rotamer, '_rotamers')
    ctx.h_buf = monitor.attach(rotamer, 'is_buffered_transition', post=post)
    ctx.h_gate = monitor.attach(rotamer, 'get_gates')
    ctx.h_tr = monitor.attach(disorder, 'transitions')


def teardown(ctx):
    ctx.count('rotamer_calls', ctx.h_rot.calls)
    ctx.count('is_buffered_calls', ctx.h_buf.calls)
    ctx.count('get_gates_calls', ctx.h_gate.calls)
    ctx.count('transitions_calls', ctx.h_tr.calls)


def plain_bin(a, hb):
    for i in range(len(hb) - 1):
        if a < hb[i + 1]:
            return i
    return len(hb) - 2


def machine(angles, hb, b):
    out = []
    s = plain_bin(angles[0], hb)
    out.append(s)
    dec = []
    for a in angles[1:]:
        lo, hi = hb[s], hb[s + 1]
        stay = ((a - (lo - b)) % 360.0) < (hi - lo + 2 * b)
        dec.append(not stay)
        if not stay:
            s = plain_bin(a, hb)
        out.append(s)
    return np.array(out), dec


def gates(hb, b):
    """The finitely many exact gate values: boundary -/+ buffer (mod 360).
    With a positive buffer the hard boundaries themselves are NOT gates and
    are legitimate angles."""
    g = set()
    for x in hb:
        for s in (-1, 1):
            g.add((x + s * b) % 360.0)
    return sorted(g)


def gen_angles(rng, hb, b):
    n = int(rng.integers(1, 301))
    kind = ['uniform', 'walk', 'seam', 'gates', 'square', 'grid', 'near'][
        int(rng.integers(0, 7))]
    G = gates(hb, b)
    if kind == 'uniform':
        a = rng.uniform(0, 360, size=n)
    elif kind == 'walk':
        step = [2.0, 5.0, 20.0][int(rng.integers(0, 3))]
        a = (rng.uniform(0, 360) + np.cumsum(rng.normal(0, step, size=n))) \
            % 360.0
    elif kind == 'seam':
        a = (rng.normal(0, max(b, 3.0) * 1.5, size=n)) % 360.0
    elif kind == 'gates':
        g = G[int(rng.integers(0, len(G)))]
        a = (g + rng.normal(0, 4.0, size=n) +
             (rng.random(n) < 0.1) * rng.uniform(-180, 180, size=n)) % 360.0
    elif kind == 'near':
        # float64 angles a few 1e-6 degrees to either side of a gate, of a
        # hard boundary or of the 0/360 seam: off the exact gate values, but
        # closer to them than single precision can resolve
        pts = np.array(list(G) + [float(x) for x in hb])
        p = pts[rng.integers(0, len(pts), size=n)]
        d = rng.uniform(2e-6, 1e-5, size=n) * rng.choice([-1.0, 1.0], size=n)
        a = np.where(rng.random(n) < 0.5, rng.uniform(0, 360, size=n),
                     (p + d) % 360.0)
    elif kind == 'grid':
        # angles on a coarse grid: exact multiples of 5, 30 or 60 degrees,
        # which land exactly on the hard boundaries (0, 120, 160, 180, 240)
        step = [5, 10, 30, 60, 1][int(rng.integers(0, 5))]
        a = (rng.integers(0, 360 // step, size=n) * step).astype(float)
    else:
        c = [(hb[i] + hb[i + 1]) / 2 for i in range(len(hb) - 1)]
        seq = rng.integers(0, len(c), size=n)
        a = (np.array(c)[seq] + rng.normal(0, 3.0, size=n)) % 360.0
    a = np.where(a >= 360.0, 0.0, a)
    # keep off the finitely many gate values (non-representable offsets)
    for g in G:
        close = np.abs(a - g) < 1e-6
        a = np.where(close, (a + 0.0123456789) % 360.0, a)
    return a, kind


def run_rot(ctx, rng, idx):
    from vf.monitor import Frozen
    hb = BOUNDS[int(rng.integers(0, 3))]
    widest = max(hb[i + 1] - hb[i] for i in range(len(hb) - 1))
    bmax = (360 - widest) / 2.0
    bk = int(rng.integers(0, 6))
    # bmax itself (two-basin sets; the three-basin set's own range check
    # refuses it): the widest basin widened on both sides closes up to the
    # whole circle exactly, its two gates coincide, and it is never left
    b = [0, 15, float(rng.uniform(0, bmax) // 1), bmax - 1,
         float(rng.uniform(0.5, bmax - 0.5)),
         bmax if len(hb) == 3 else bmax - 0.5][bk]
    if b == bmax:
        ctx.count('closing_buffer_cases')
    if rng.random() < 0.3:
        b = int(b)
    angles, kind = gen_angles(rng, hb, b)
    desc = {'boundaries': hb, 'buffer': b, 'kind': kind, 'n': len(angles),
            'angles': angles if len(angles) <= 40 else 'elided'}
    ctx.describe(desc)
    ctx.seen('histories', '%s/%s' % (hb, kind))
    if rng.random() < 0.15:
        angles = angles.astype(np.float32)
        G = gates(hb, b)
        angles = np.where(np.isin(angles, np.array(G, dtype=np.float32)),
                          angles + np.float32(0.03), angles)
        angles = np.where(angles >= 360, np.float32(0.5), angles)
    exp, dec = machine([float(a) for a in angles], hb, b)
    hb_arg = hb if rng.random() < 0.5 else np.array(hb)
    fz = Frozen(angles, hb_arg)
    ctx.decisions = []
    try:
        got = rotamer._rotamers(angles, hb_arg, buffer_width=b)
    except Exception as e:  # noqa
        ctx.crash('rotamers.raised', e)
        return
    if fz.changed():
        ctx.violation('rotamers.mutates-input', '%s' % fz.changed())
    got = np.asarray(got)
    ctx.count('frames_compared', len(angles))
    if got.dtype != np.int16:
        ctx.violation('rotamers.dtype', 'dtype %s' % got.dtype)
    if got.shape != exp.shape:
        ctx.violation('rotamers.shape', '%s' % (got.shape,))
        return
    nb = len(hb) - 1
    if np.any(got < 0) or np.any(got >= nb):
        ctx.violation('rotamers.invalid-state', 'states %s outside [0,%d)' % (
            np.unique(got).tolist(), nb))
    if got[0] != exp[0]:
        ctx.violation('rotamers.first-frame', 'angle %.6f -> state %d, basin '
                      'is %d' % (angles[0], got[0], exp[0]))
    elif not np.array_equal(got, exp):
        i = int(np.where(got != exp)[0][0])
        ctx.violation(
            'rotamers.hysteresis-wrong',
            'frame %d: angle %.6f (previous state %d, boundaries %s, buffer '
            '%s): machine says %d, enspara says %d' % (
                i, angles[i], exp[i - 1], hb, b, exp[i], got[i]))
    elif ctx.decisions != dec:
        ctx.violation('rotamers.decision-trace',
                      'per-frame exit decisions differ from the machine')
    if b == 0:
        pb = np.array([plain_bin(a, hb) for a in angles])
        if not np.array_equal(got, pb):
            ctx.violation('rotamers.zero-buffer-not-binning',
                          'buffer 0 differs from plain binning')
    pb = np.array([plain_bin(a, hb) for a in angles])
    wrap_states = {0, nb - 1}
    changes = set(np.unique(exp[np.where(np.diff(exp) != 0)[0] + 1]).tolist()) \
        if len(exp) > 1 else set()
    if np.any(pb != exp) and (changes & wrap_states):
        ctx.nontriv(angles.tobytes(), hb, b)
    if idx % 800 == 0:
        ctx.sample(dict(desc, states=exp[:40]))


def run_trans(ctx, rng, idx):
    from vf.monitor import Frozen
    form = ['1d', '2d', 'ragged'][int(rng.integers(0, 3))]
    nst = int(rng.integers(1, 4))
    dtype = [np.int16, np.int64, np.int32, np.int8][int(rng.integers(0, 4))]
    # long trajectories: frame numbers beyond the range of the (narrow)
    # element type the states are stored in (int16 from the rotamer code)
    long_ = rng.random() < 0.05

    def seq(L, flat):
        if long_ and not flat:
            L = max(L, int(rng.integers(33000, 70000)))
            cps = np.sort(rng.choice(np.arange(1, L), size=int(
                rng.integers(1, 12)), replace=False))
            if rng.random() < 0.7:
                cps[-1] = int(rng.integers(32769, L))
                cps = np.sort(np.unique(cps))
            vals = [int(rng.integers(0, max(nst, 2)))]
            for _ in cps:
                vals.append((vals[-1] + 1 + int(rng.integers(0, max(
                    nst - 1, 1)))) % max(nst, 2))
            out = np.empty(L, dtype=dtype)
            edges = [0] + [int(c) for c in cps] + [L]
            for v, a_, b_ in zip(vals, edges[:-1], edges[1:]):
                out[a_:b_] = v
            return out
        if flat:
            return np.full(L, int(rng.integers(0, nst)), dtype=dtype)
        if rng.random() < 0.5:
            return rng.integers(0, nst, size=L).astype(dtype)
        # sticky sequence
        s = [int(rng.integers(0, nst))]
        for _ in range(L - 1):
            s.append(s[-1] if rng.random() < 0.8 else int(rng.integers(0, nst)))
        return np.array(s, dtype=dtype)
    if form == '1d':
        a = seq(int(rng.integers(1, 60)), rng.random() < 0.2)
        rows = [a]
        arg = a
    else:
        ntr = int(rng.integers(1, 7))
        flatmask = rng.random(ntr) < 0.35
        if rng.random() < 0.3:
            flatmask[-1] = True
        if rng.random() < 0.2:
            flatmask[0] = True
        if form == '2d':
            L = int(rng.integers(1, 40))
            if long_:
                L = int(rng.integers(33000, 70000))
                flatmask[:] = False
                ntr = min(ntr, 3)
                flatmask = flatmask[:ntr]
            rows = [seq(L, f)[:L] for f in flatmask]
            arg = np.array(rows)
        else:
            rows = [seq(int(rng.integers(1, 40)), f) for f in flatmask]
            arg = R([r.copy() for r in rows])
    desc = {'form': form, 'rows': [r.tolist() for r in rows]
            if sum(len(r) for r in rows) < 80 else 'elided',
            'lens': [len(r) for r in rows]}
    ctx.describe(desc)
    exp = [np.where(r[1:] != r[:-1])[0] for r in rows]
    if long_:
        ctx.count('long_state_sequences')
    fz = Frozen(arg)
    try:
        tt = disorder.transitions(arg)
    except Exception as e:  # noqa
        pos = 'none'
        if form != '1d':
            empt = [len(e_) == 0 for e_ in exp]
            pos = 'all-empty' if all(empt) else (
                'trailing-empty' if empt[-1] else (
                    'some-empty' if any(empt) else 'no-empty'))
        ctx.violation('transitions.raised[%s,%s]' % (form, pos),
                      '%s: %s' % (type(e).__name__, str(e)[:200]))
        return
    ctx.count('transition_tables_checked')
    if fz.changed():
        ctx.violation('transitions.mutates-input', form)
    if form == '1d':
        if not np.array_equal(np.asarray(tt), exp[0]):
            ctx.violation('transitions.1d.wrong', 'got %s expected %s' % (
                np.asarray(tt).tolist(), exp[0].tolist()))
    else:
        try:
            nrows = len(tt)
            got = [np.asarray(tt[i]).astype(int) for i in range(nrows)]
        except Exception as e:  # noqa
            ctx.violation('transitions.unreadable', '%s: %s' % (
                type(e).__name__, e))
            return
        if nrows != len(rows):
            empt = [len(e_) == 0 for e_ in exp]
            ctx.violation('transitions.row-count[%s]' % (
                'trailing-empty' if empt[-1] else 'other'),
                '%d input trajectories, %d rows in the table (rows without '
                'transitions: %s)' % (len(rows), nrows,
                                      [i for i, e_ in enumerate(empt) if e_]))
        else:
            for i, (g, e_) in enumerate(zip(got, exp)):
                if not np.array_equal(g, e_):
                    ctx.violation('transitions.row-wrong',
                                  'row %d: got %s expected %s' % (
                                      i, g.tolist(), e_.tolist()))
                    break
        if len(rows) >= 3 and any(len(e_) == 0 for e_ in exp):
            ctx.nontriv('trans', form, tuple(tuple(r.tolist()) for r in rows))
    # the per-trajectory table built on top of it
    if form != '1d' and idx % 2 == 0:
        nfeat = int(rng.integers(1, 4))
        rt = [np.stack([seq(len(r), rng.random() < 0.3)[:len(r)]
                        for _ in range(nfeat)], axis=1).astype(np.int16)
              for r in rows]
        try:
            tts, mo, md_ = disorder.transition_stats([x.copy() for x in rt])
            ctx.count('transition_stats_checked')
            okk = len(tts) == len(rt)
            for i, x in enumerate(rt):
                for j in range(nfeat):
                    e_ = np.where(x[1:, j] != x[:-1, j])[0]
                    if not okk or not np.array_equal(
                            np.asarray(tts[i][j]).astype(int), e_):
                        okk = False
                        ctx.violation(
                            'transition_stats.wrong',
                            'trajectory %d feature %d: transition frames %s, '
                            'consecutive states differ at %s' % (
                                i, j, np.asarray(tts[i][j]).tolist()
                                if len(tts) > i and len(tts[i]) > j else None,
                                e_.tolist()))
                        break
                if not okk:
                    break
        except Exception as e:  # noqa
            ctx.crash('transition_stats.raised', e)
    if idx % 800 == 0:
        ctx.sample(desc)


def run_feat(ctx, rng, idx):
    real_md = rotamer.md
    try:
        return _run_feat(ctx, rng, idx)
    finally:
        rotamer.md = real_md


def _run_feat(ctx, rng, idx):
    """Whole-trajectory entry points: all_rotamers / phi / psi / chi and the
    RotamerFeaturizer estimator on several trajectories must apply the SAME
    machine (requested buffer, fresh start per trajectory) as _rotamers."""
    import os
    import mdtraj as md
    from enspara.cards import featurizers
    import enspara
    base = os.path.join(os.path.dirname(enspara.__file__), 'test')
    if not hasattr(ctx, 'pep'):
        ctx.pep = md.load(os.path.join(base, 'cards_data', 'trj0.xtc'),
                          top=os.path.join(base, 'cards_data',
                                           'PROT_only.pdb'))
    full = ctx.pep
    b = [0, 5, 15, 40, float(np.round(rng.uniform(0.5, 79.0), 2)) + 0.003][
        int(rng.integers(0, 5))]
    ntr = int(rng.integers(1, 5))
    trajs = []
    for _ in range(ntr):
        L = int(rng.integers(1, 40))
        fr = rng.integers(0, len(full), size=L) if rng.random() < 0.5 else \
            (int(rng.integers(0, len(full) - L)) + np.arange(L))
        trajs.append(full[fr])
    desc = {'buffer': b, 'trajectories': [len(t) for t in trajs],
            'input': 'generator' if idx % 2 else 'list'}
    ctx.describe(desc)

    # Independent coordinates -> degrees step, with planted special values:
    # the dihedral routine of mdtraj as seen by the rotamer module is wrapped
    # so that some angles come out as exactly 0 (planar cis), -0.0, +-1e-7
    # rad or +-pi/2; the wrapper is deterministic in (coordinates, type)
    import zlib

    class MdProxy:
        def __init__(self, real):
            self._real = real

        def __getattr__(self, name):
            v = getattr(self._real, name)
            if not name.startswith('compute_') or name[8:] not in (
                    'phi', 'psi', 'chi1', 'chi2', 'chi3', 'chi4'):
                return v

            def planted(traj, *a, **k):
                inds, ang = v(traj, *a, **k)
                ang = np.array(ang, copy=True)
                g = np.random.default_rng(zlib.crc32(
                    np.asarray(traj.xyz).tobytes()) + len(name))
                if ang.size:
                    m = g.random(ang.shape) < 0.12
                    pool = np.array([0.0, -0.0, 1e-7, -1e-7, np.pi / 2,
                                     -np.pi / 2, 0.0, 0.0], dtype=ang.dtype)
                    ang[m] = pool[g.integers(0, len(pool), size=int(m.sum()))]
                return inds, ang
            return planted
    plant = rng.random() < 0.5
    real_md = rotamer.md
    if plant:
        rotamer.md = MdProxy(real_md)
        ctx.count('planted_angle_cases')

    def my_degrees(t, dih):
        _, ang = getattr(rotamer.md, 'compute_' + dih)(t)
        ang = np.rad2deg(np.array(ang, dtype=np.float64))
        ang = np.where(ang < 0, ang + 360.0, ang)
        # (the library clamps the top half degree; part of its definition)
        return np.where(ang > 359.5, 359.5, ang)

    def expected(t):
        cols = []
        for dih, hb, shift in (('phi', [0, 180, 360], 0),
                               ('psi', [0, 160, 360], 100),
                               ('chi1', [0, 120, 240, 360], 0),
                               ('chi2', [0, 120, 240, 360], 0),
                               ('chi3', [0, 120, 240, 360], 0),
                               ('chi4', [0, 120, 240, 360], 0)):
            ang = my_degrees(t, dih)
            if shift:
                ang = ang - shift
                ang[ang < 0] += 360
            G = gates(hb, b)
            for c in range(ang.shape[1]):
                a = ang[:, c]
                if np.any(np.isin(np.round(a, 9), np.round(G, 9))):
                    cols.append(None)       # an exact gate value: ambiguous
                    continue
                cols.append(machine([float(x) for x in a], hb, b)[0])
        return cols
    try:
        f = featurizers.RotamerFeaturizer(buffer_width=b)
        if idx % 3 == 0:
            # the estimator has been used before, on other trajectories
            f.fit([full[:7], full[3:5]])
            _ = f.feature_trajectories_
        f.fit((t for t in trajs) if idx % 2 else list(trajs))
        got = f.feature_trajectories_
        if f.buffer_width != b:
            ctx.violation('featurizer.fit-rewrites-parameter',
                          'buffer_width %r -> %r' % (b, f.buffer_width))
    except Exception as e:  # noqa
        ctx.crash('featurizer.raised', e)
        return
    ctx.count('featurizer_fits')
    if len(got) != ntr:
        ctx.violation('featurizer.trajectory-count', '%d in, %d out' % (
            ntr, len(got)))
        return
    for i, (t, g) in enumerate(zip(trajs, got)):
        exp = expected(t)
        g = np.asarray(g)
        if g.shape != (len(t), len(exp)):
            ctx.violation('featurizer.shape', 'trajectory %d: %s vs (%d, %d)'
                          % (i, g.shape, len(t), len(exp)))
            return
        direct = np.asarray(rotamer.all_rotamers(t, buffer_width=b)[0])
        for c, e in enumerate(exp):
            if e is None:
                ctx.count('ambiguous_gate_columns')
                continue
            ctx.count('frames_compared', len(e))
            if not np.array_equal(direct[:, c], e):
                ctx.violation('all_rotamers.hysteresis-wrong',
                              'dihedral %d of trajectory %d (buffer %s): '
                              'all_rotamers differs from the machine' % (
                                  c, i, b))
                return
            if not np.array_equal(g[:, c], e):
                w = int(np.where(g[:, c] != e)[0][0])
                ctx.violation(
                    'featurizer.differs[%s]' % ('first-trajectory' if i == 0
                                                else 'later-trajectory'),
                    'RotamerFeaturizer(buffer_width=%s): trajectory %d, '
                    'dihedral %d, frame %d: got %d, the machine with that '
                    'buffer says %d' % (b, i, c, w, g[w, c], e[w]))
                return
    if ntr >= 2 and b != 15:
        ctx.nontriv('feat', b, tuple(len(t) for t in trajs), idx)
    if idx % 12 == 0:
        ctx.sample(desc)


def run_threads(ctx, rng, idx):
    """Several Python threads assign rotamers at the same time, each with its
    own boundary set / buffer (phi, psi and chi of one protein in a thread
    pool), with GIL yields injected at the line boundaries of the state
    machine's helpers: every sequence must equal the one computed alone, and
    a later, strictly sequential call must not be affected either."""
    from vf.monitor import threaded_differential
    def orig(name):
        f = getattr(rotamer, name)
        return getattr(f, '__vf_orig__', f)
    rot = orig('_rotamers')
    jobs, descs = [], []
    for k in range(int(rng.integers(6, 12))):
        hb = BOUNDS[k % 3]
        widest = max(hb[i + 1] - hb[i] for i in range(len(hb) - 1))
        b = float(rng.integers(1, int((360 - widest) / 2)))
        ang, _ = gen_angles(rng, hb, b)
        ang = ang[:80]
        jobs.append(lambda ang=ang, hb=hb, b=b: [int(x) for x in rot(
            ang.copy(), list(hb), buffer_width=b)])
        descs.append({'boundaries': hb, 'buffer': b, 'n': len(ang)})
    ctx.describe({'jobs': descs})
    helpers = [rot] + [orig(n_) for n_ in ('is_buffered_transition',
                                           'get_gates')]
    for nm, v in vars(rotamer).items():
        if nm.startswith('_') and callable(v) and hasattr(v, '__code__') \
                and v not in helpers:
            helpers.append(v)
    serial, thr, inj = threaded_differential(
        jobs, helpers, seed=int(rng.integers(0, 2 ** 31)), n_threads=4,
        timeout=60)
    after = [('ok', j()) for j in jobs[:3]]
    ctx.count('threaded_jobs', len(jobs))
    ctx.count('yields_injected', inj.yields)
    ctx.count('rotamer_calls', 0)
    if any(t is None for t in thr):
        ctx.count('threaded_jobs_unfinished')
        return
    for d, a, b_ in zip(descs, serial, thr):
        if a != b_:
            ctx.violation('rotamers.differs-under-threads',
                          '%s: alone %s..., from one of 4 concurrent Python '
                          'threads %s...' % (d, str(a)[:120], str(b_)[:120]))
            break
    if after != serial[:3]:
        ctx.violation('rotamers.sequential-call-after-threads-differs',
                      'a sequential call after the threaded phase no longer '
                      'gives the result it gave before')
    if inj.yields > 50:
        ctx.nontriv('threads', idx, len(jobs))


def run_case(ctx, kind, rng, idx):
    if kind == 'threads':
        return run_threads(ctx, rng, idx)
    if kind == 'rot':
        run_rot(ctx, rng, idx)
    elif kind == 'feat':
        run_feat(ctx, rng, idx)
    else:
        run_trans(ctx, rng, idx)
