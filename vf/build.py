"""Build enspara's compiled extensions out-of-tree from $VERIF_REPO's working tree.

A build is identified by (tree hash, variant).  Variants:
  plain - the flags setup.py uses
  asan  - GCC -fsanitize=address,undefined -fno-sanitize-recover=all
  tsan  - GCC -fsanitize=thread
Builds live under $VERIF_SCRATCH (default /var/tmp/enspara-verif), never in
/repo or /verif.  Builds of other tree hashes are deleted.
"""
import fcntl
import hashlib
import os
import shutil
import subprocess
import sys
import time

HERE = os.path.dirname(os.path.abspath(__file__))
VERIF = os.path.dirname(HERE)
PY = '/venv/bin/python'


def repo():
    return os.environ.get('VERIF_REPO', '/repo')


def scratch():
    d = os.environ.get('VERIF_SCRATCH', '/var/tmp/enspara-verif')
    os.makedirs(d, exist_ok=True)
    return d


def tree_hash(root=None):
    root = root or repo()
    h = hashlib.sha256()
    files = [os.path.join(root, 'setup.py')]
    for dp, dn, fn in os.walk(os.path.join(root, 'enspara')):
        dn[:] = sorted(d for d in dn if d not in ('__pycache__', 'data') and
                       not d.endswith('_data'))
        for f in sorted(fn):
            if f.endswith(('.py', '.pyx', '.pxd')):
                files.append(os.path.join(dp, f))
    for f in files:
        h.update(os.path.relpath(f, root).encode())
        with open(f, 'rb') as fh:
            h.update(fh.read())
    return h.hexdigest()[:16]


VARIANT_FLAGS = {
    'plain': dict(CFLAGS='-O2', LDFLAGS=''),
    'asan': dict(
        CFLAGS='-O1 -g -fno-omit-frame-pointer -fsanitize=address,undefined '
               '-fno-sanitize-recover=all',
        LDFLAGS='-fsanitize=address,undefined'),
    'tsan': dict(
        CFLAGS='-O1 -g -fno-omit-frame-pointer -fsanitize=thread',
        LDFLAGS='-fsanitize=thread'),
}


def _gcc_file(name):
    return subprocess.check_output(
        ['gcc', '-print-file-name=' + name], text=True).strip()


def sanitizer_lib(variant):
    if variant == 'asan':
        return _gcc_file('libasan.so')
    if variant == 'tsan':
        return _gcc_file('libtsan.so')
    return None


def _clean_old(keep_hash):
    """Remove builds of OTHER tree hashes of the SAME source directory that
    have not been used for 30 minutes (scratch copies used by the self-test
    remove their own builds)."""
    base = scratch()
    me = os.path.realpath(repo())
    for d in os.listdir(base):
        p = os.path.join(base, d)
        if not d.startswith('b-') or d.startswith('b-' + keep_hash):
            continue
        try:
            src = open(os.path.join(p, '.source')).read().strip()
            age = time.time() - os.path.getmtime(p)
        except OSError:
            # unfinished or legacy build directory
            try:
                age = time.time() - os.path.getmtime(p)
            except OSError:
                continue
            src = me if age > 7200 else None
        if src == me and age > 1800:
            shutil.rmtree(p, ignore_errors=True)


def remove_builds_of(source_dir):
    base = scratch()
    me = os.path.realpath(source_dir)
    for d in os.listdir(base):
        p = os.path.join(base, d)
        try:
            if d.startswith('b-') and open(os.path.join(
                    p, '.source')).read().strip() == me:
                shutil.rmtree(p, ignore_errors=True)
        except OSError:
            pass


def ensure(variant='plain'):
    """Return the directory holding an importable, built copy of enspara."""
    h = tree_hash()
    base = scratch()
    dest = os.path.join(base, 'b-%s-%s' % (h, variant))
    stamp = os.path.join(dest, '.built')
    lock = os.path.join(base, '.lock-%s-%s' % (h, variant))
    with open(lock, 'w') as lf:
        fcntl.flock(lf, fcntl.LOCK_EX)
        if os.path.exists(stamp):
            os.utime(dest, None)
            return dest
        _clean_old(h)
        tmp = dest + '.tmp%d' % os.getpid()
        shutil.rmtree(tmp, ignore_errors=True)
        os.makedirs(tmp)
        src = repo()
        shutil.copy(os.path.join(src, 'setup.py'), tmp)
        shutil.copytree(
            os.path.join(src, 'enspara'), os.path.join(tmp, 'enspara'),
            ignore=shutil.ignore_patterns('__pycache__', '*.so', '*.c',
                                          'build'))
        env = dict(os.environ)
        fl = VARIANT_FLAGS[variant]
        env['CC'] = 'gcc'
        env['CFLAGS'] = fl['CFLAGS']
        env['LDFLAGS'] = fl['LDFLAGS']
        env.pop('LD_PRELOAD', None)
        t0 = time.time()
        p = subprocess.run(
            [PY, 'setup.py', 'build_ext', '--inplace', '--parallel', '3'],
            cwd=tmp, env=env, stdout=subprocess.PIPE,
            stderr=subprocess.STDOUT, text=True)
        if p.returncode != 0:
            sys.stderr.write(p.stdout[-4000:])
            shutil.rmtree(tmp, ignore_errors=True)
            raise RuntimeError('build of variant %s failed' % variant)
        shutil.rmtree(os.path.join(tmp, 'build'), ignore_errors=True)
        with open(os.path.join(tmp, '.source'), 'w') as f:
            f.write(os.path.realpath(src) + '\n')
        with open(os.path.join(tmp, '.built'), 'w') as f:
            f.write('%s %s %.1fs\n' % (h, variant, time.time() - t0))
        shutil.rmtree(dest, ignore_errors=True)
        os.rename(tmp, dest)
        return dest


def native(name):
    """Compile a helper from vf/native on demand; returns the .so path."""
    base = os.path.join(scratch(), 'native')
    os.makedirs(base, exist_ok=True)
    src = os.path.join(HERE, 'native', name + '.c')
    with open(src, 'rb') as f:
        h = hashlib.sha256(f.read()).hexdigest()[:12]
    if name == 'poisonalloc':
        import sysconfig
        out = os.path.join(base, 'poisonalloc-%s' % h)
        so = os.path.join(out, 'poisonalloc.so')
        if os.path.exists(so):
            return out
        os.makedirs(out, exist_ok=True)
        inc = subprocess.check_output(
            [PY, '-c', 'import numpy,sysconfig;print(numpy.get_include());'
                       'print(sysconfig.get_paths()["include"])'],
            text=True).split()
        tmp = so + '.tmp%d' % os.getpid()
        subprocess.check_call(
            ['gcc', '-O2', '-shared', '-fPIC', '-I' + inc[0], '-I' + inc[1],
             src, '-o', tmp])
        os.rename(tmp, so)
        return out
    if name == 'gomp_hb':
        so = os.path.join(base, 'libgomp_hb-%s.so' % h)
        if os.path.exists(so):
            return so
        tmp = so + '.tmp%d' % os.getpid()
        subprocess.check_call(
            ['gcc', '-O2', '-shared', '-fPIC', src, '-o', tmp, '-ldl',
             '-L' + os.path.dirname(_gcc_file('libtsan.so')), '-ltsan'])
        os.rename(tmp, so)
        return so
    raise KeyError(name)


if __name__ == '__main__':
    for v in (sys.argv[1:] or ['plain']):
        t0 = time.time()
        print(v, ensure(v), '%.1fs' % (time.time() - t0))
