#!/bin/sh
# usage: seed_verify.sh <worktree>   -- confirm a seeded change myself:
#   demo fails with the patch, passes without, pinned tests unaffected
WT=$1
cd $WT || exit 2
PYX=$(grep -c '\.pyx' _seeded/patch.diff)
run_demo() { PYTHONPATH=$WT/_stub:$WT timeout 900 /venv/bin/python _seeded/demo.py > /tmp/demo.out 2>&1; echo $?; }
echo "== patch touches: $(grep '^+++ ' _seeded/patch.diff | tr '\n' ' ')"
echo "== state: $(git status --short | grep -v '^??' | tr '\n' ' ')"
echo "== demo WITH patch: rc=$(run_demo)"; tail -3 /tmp/demo.out
echo "== pinned tests WITH patch:"; /venv/bin/python -m pytest -q -p no:cacheprovider enspara/test/test_ra.py enspara/test/test_tpt_fluxes.py enspara/test/test_rotamer.py 2>&1 | tail -1
git apply -R _seeded/patch.diff || { echo "cannot revert"; exit 3; }
[ "$PYX" != "0" ] && /venv/bin/python setup.py build_ext --inplace > /dev/null 2>&1
echo "== demo WITHOUT patch: rc=$(run_demo)"; tail -2 /tmp/demo.out
git apply _seeded/patch.diff
[ "$PYX" != "0" ] && /venv/bin/python setup.py build_ext --inplace > /dev/null 2>&1
echo "== restored: $(git status --short | grep -v '^??' | tr '\n' ' ')"
