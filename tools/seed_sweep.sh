#!/bin/sh
# usage: seed_sweep.sh <tier> <seed...>  -- run every check under several VERIF_SEED values
# (evidence goes to out/evidence-scratch so committed evidence is untouched)
cd /verif; TIER=$1; shift
for s in "$@"; do
  for p in C01 C02 C03 C04 C05 C06 C07 C08 C09 C10 C11 C12 C13 C14 C15 C16 C17 C18 C19 C20; do
    out=$(VERIF_SEED=$s VF_EVIDENCE_DIR=/verif/out/evidence-scratch ./check $p --tier $TIER 2>&1); rc=$?
    echo "seed=$s $p rc=$rc $(echo "$out" | tail -1)"
    [ $rc -ne 0 ] && echo "$out" | grep -E "^(VIOLATION|INCONCLUSIVE)" | head -5
  done
done
