#!/bin/sh
# usage: seed_check.sh [seed-id ...]  -- apply each seeded patch to /repo, run the
# property's quick check against /repo, undo the patch straight afterwards.
cd /verif
[ -z "$(git -C /repo status --porcelain --untracked-files=no)" ] || { echo "/repo is dirty"; exit 2; }
IDS="$@"; [ -z "$IDS" ] && IDS=$(ls seeded | grep -v RESULTS)
for id in $IDS; do
  prop=$(python3 -c "import json;print(json.load(open('seeded/$id/meta.json'))['property'])")
  git -C /repo apply /verif/seeded/$id/patch.diff || { echo "$id: patch does not apply"; continue; }
  out=$(VF_EVIDENCE_DIR=/verif/out/evidence-scratch ./check $prop --tier quick 2>&1); rc=$?
  git -C /repo checkout -- .
  nv=$(echo "$out" | grep -c '^VIOLATION')
  keys=$(echo "$out" | grep '^VIOLATION' | sed 's/.*key=\([^ ]*\).*/\1/' | sort -u | head -4 | tr '\n' ' ')
  echo "$id | $prop | rc=$rc | $(echo "$out" | tail -1 | sed 's/.*violations=\([0-9]*\).*/\1 violations/') | $keys"
done
[ -z "$(git -C /repo status --porcelain --untracked-files=no)" ] && echo "/repo clean again"
