#!/bin/sh
# usage: seed_check.sh [seed-id ...]  -- apply each seeded patch to a SCRATCH COPY of
# /repo's working tree (VERIF_REPO=<copy>), run the property's quick check against the
# copy, remove the copy and its builds straight afterwards.
#
# /repo itself is never touched.  The first version of this tool patched /repo in place
# and undid the patch after the check; a session that ended while a check was running
# left the seeded change c18-pair-index-decoded-with-wrong-width-r5 applied in /repo,
# where it was committed as if it were part of the tree (DESIGN.md section 10).
cd /verif
IDS="$@"; [ -z "$IDS" ] && IDS=$(ls seeded | grep -v RESULTS)
BASE=/var/tmp/enspara-verif/seedcheck.$$
cleanup() {
  [ -d "$BASE" ] && /venv/bin/python -c "
import sys; sys.path.insert(0, '/verif')
from vf import build
build.remove_builds_of('$BASE/wt')" 2>/dev/null
  rm -rf "$BASE"
}
trap cleanup EXIT
trap 'exit 130' INT TERM HUP
before=$(git -C /repo status --porcelain --untracked-files=no; git -C /repo rev-parse HEAD)
for id in $IDS; do
  prop=$(python3 -c "import json;print(json.load(open('seeded/$id/meta.json'))['property'])")
  cleanup; mkdir -p "$BASE/wt"
  cp /repo/setup.py "$BASE/wt/" && rsync -a --exclude __pycache__ --exclude '*.so' \
     --exclude '*.c' --exclude build /repo/enspara "$BASE/wt/" || { echo "$id: copy failed"; continue; }
  (cd "$BASE/wt" && patch -p1 -s --no-backup-if-mismatch < /verif/seeded/$id/patch.diff) \
     || { echo "$id: patch does not apply"; continue; }
  out=$(VERIF_REPO="$BASE/wt" VF_EVIDENCE_DIR=/verif/out/evidence-scratch ./check $prop --tier quick 2>&1); rc=$?
  nv=$(echo "$out" | grep -c '^VIOLATION')
  keys=$(echo "$out" | grep '^VIOLATION' | sed 's/.*key=\([^ ]*\).*/\1/' | sort -u | head -4 | tr '\n' ' ')
  echo "$id | $prop | rc=$rc | $(echo "$out" | tail -1 | sed 's/.*violations=\([0-9]*\).*/\1 violations/') | $keys"
done
after=$(git -C /repo status --porcelain --untracked-files=no; git -C /repo rev-parse HEAD)
[ "$before" = "$after" ] && echo "/repo untouched" || echo "WARNING: /repo changed while this ran"
