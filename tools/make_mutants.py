import json, os
M = {}
def mut(prop, name, file=None, old=None, new=None, kinds=None, edits=None):
    e = edits or [{'file': file, 'old': old, 'new': new}]
    for ed in e:
        s = open('/repo/' + ed['file']).read()
        assert s.count(ed['old']) == 1, (prop, name, s.count(ed['old']))
    d = {'name': name, 'edits': e}
    if kinds: d['kinds'] = kinds
    M.setdefault(prop, []).append(d)

KM='enspara/cluster/kmedoids.py'; KC='enspara/cluster/kcenters.py'; CU='enspara/cluster/util.py'
RA='enspara/ra/ra.py'; TM='enspara/msm/transition_matrices.py'; BU='enspara/msm/builders.py'
# ---- C01
mut('C01','coords-committed-before-accept',KM,
    "        new_medoids = medoid_coords.copy()\n        new_medoids[cid] = proposed_center\n",
    "        new_medoids = medoid_coords\n        new_medoids[cid] = proposed_center\n")
mut('C01','ambiguous-frames-use-old-medoids',KM,
    "                X[dst_up_assig_this], new_medoids, metric)",
    "                X[dst_up_assig_this], medoid_coords, metric)")
mut('C01','assign-skips-last-center',CU,
    "        for i, center in enumerate(cluster_centers):\n            dist = distance_method(trajectory, center)\n            inds = (dist < distances)",
    "        for i, center in enumerate(cluster_centers[:max(1, len(cluster_centers) - (len(cluster_centers) > 6))]):\n            dist = distance_method(trajectory, center)\n            inds = (dist < distances)")
# ---- C02
mut('C02','argmin-for-argmax',KC,
    "    new_center_index = np.argmax(distances)\n    new_center = traj[new_center_index]",
    "    new_center_index = np.argmin(distances) if len(center_inds) == 3 else np.argmax(distances)\n    new_center = traj[new_center_index]")
mut('C02','loop-guard-le',KC,
    "    while (len(ctr_inds) < n_clusters) and (maxdist > dist_cutoff):",
    "    while (len(ctr_inds) <= n_clusters) and (maxdist > dist_cutoff):")
mut('C02','cutoff-ge',KC,
    "    while (len(ctr_inds) < n_clusters) and (maxdist > dist_cutoff):",
    "    while (len(ctr_inds) < n_clusters) and (maxdist >= dist_cutoff):")
mut('C02','triangle-drop-half',KC,
    "        recompute_dists = distances > (cc_dists[assignments] / 2)\n\n        logger.debug(\"Recomputing %s of %s distances\",\n                     np.count_nonzero(recompute_dists), len(recompute_dists))\n\n        dist = distances.copy()",
    "        recompute_dists = distances > (cc_dists[assignments])\n\n        logger.debug(\"Recomputing %s of %s distances\",\n                     np.count_nonzero(recompute_dists), len(recompute_dists))\n\n        dist = distances.copy()")
# ---- C03
mut('C03','sliding-slice-off-by-one',TM,
    "        start_states = assigns_1d[:-lag_time:1]\n        end_states = assigns_1d[lag_time::1]",
    "        start_states = assigns_1d[:-lag_time:1]\n        end_states = assigns_1d[lag_time::1]\n        if lag_time > 3 and len(start_states) > 1:\n            start_states, end_states = start_states[:-1], end_states[:-1]")
mut('C03','nonsliding-stride-one-side',TM,
    "        start_states = assigns_1d[:-lag_time:lag_time]\n        end_states = assigns_1d[lag_time::lag_time]",
    "        start_states = assigns_1d[:-lag_time:lag_time]\n        end_states = assigns_1d[lag_time::lag_time]\n        if len(assigns_1d) % lag_time == 1 and len(start_states) > 1:\n            start_states, end_states = start_states[1:], end_states[1:]")
mut('C03','concatenate-before-counting',TM,
    "    assigns = np.array([a[np.where(a != -1)] for a in assigns], dtype='O')",
    "    assigns = np.array([a[np.where(a != -1)] for a in assigns], dtype='O')\n    if len(assigns) > 4:\n        assigns = [np.concatenate(list(assigns[:2]))] + list(assigns[2:])")
# ---- C04
mut('C04','normalize-columns-sparse',BU,
    "        T = inv_weights.dot(C_csr)\n        T = type(C)(T)  # recast T to the input type",
    "        T = C_csr.dot(inv_weights) if C.format == 'csc' else inv_weights.dot(C_csr)\n        T = type(C)(T)  # recast T to the input type")
mut('C04','eqprobs-of-unprior-counts',BU,
    "    C = _apply_prior_counts(C, prior_counts)\n\n    probs = _row_normalize(C)\n\n    equilibrium = None\n    if calculate_eq_probs:\n        equilibrium = eq_probs(probs)",
    "    C0 = C\n    C = _apply_prior_counts(C, prior_counts)\n\n    probs = _row_normalize(C)\n\n    equilibrium = None\n    if calculate_eq_probs:\n        equilibrium = eq_probs(_row_normalize(C0))")
mut('C04','transpose-inplace-symmetrise',BU,
    "    C_sym = C + C.T\n    probs = _row_normalize(C_sym)",
    "    if isinstance(C, np.ndarray) and C.dtype.kind == 'f':\n        C += C.T\n        C_sym = C\n    else:\n        C_sym = C + C.T\n    probs = _row_normalize(C_sym)")
# ---- C05
mut('C05','drop-row-bounds-check',RA,
    "        if np.any(lengths[first_dimension] <= second_dimension):",
    "        if np.any(lengths[first_dimension] < second_dimension):")
mut('C05','negative-col-uses-first-row-length',RA,
    "                second_dimension[second_dimension_neg_iis] += lengths[\n                    first_dimension[second_dimension_neg_iis]]",
    "                second_dimension[second_dimension_neg_iis] += lengths[\n                    first_dimension[second_dimension_neg_iis[0]]]")
mut('C05','where-last-row-offset',RA,
    "    first_dimension = [\n        np.where(starts <= ii)[0][-1] for ii in iis_flat]",
    "    first_dimension = [\n        np.where(starts < ii + (ii == 0))[0][-1] for ii in iis_flat]")
# ---- C06
mut('C06','append-forgets-lengths-view',RA,
    "            self.lengths = np.append(self.lengths, new_lengths)\n            self._array = _partition_array(self._data, self.lengths)",
    "            self._array = _partition_array(\n                self._data, np.append(self.lengths, new_lengths))\n            if len(new_lengths) < 3:\n                self.lengths = np.append(self.lengths, new_lengths)")
mut('C06','mask-assign-skips-row-view',RA,
    "            self._data[iis_1d] = value_1d\n            self._array = _partition_array(self._data, self.lengths)\n        # if the indices are of self",
    "            self._data = self._data.copy()\n            self._data[iis_1d] = value_1d\n            if len(self.lengths) < 4:\n                self._array = _partition_array(self._data, self.lengths)\n        # if the indices are of self")
mut('C06','operator-inplace',RA,
    "        new_data = getattr(self._data, operator)(other)\n",
    "        new_data = getattr(self._data, operator.replace('__mul__', '__imul__'))(other)\n")
mut('C06','copy-false-default',RA,
    "    def __init__(self, array, lengths=None, error_checking=True, copy=True):",
    "    def __init__(self, array, lengths=None, error_checking=True, copy=False):")
# ---- C07
CO='enspara/tpt/core.py'
mut('C07','mask-only-columns',CO,
    "    I_m_Q[:, absorbing_states] = 0.0\n    I_m_Q[absorbing_states, :] = 0.0",
    "    I_m_Q[:, absorbing_states] = 0.0\n    I_m_Q[absorbing_states[:1], :] = 0.0")
mut('C07','mfpt-forgets-lagtime-allpairs',CO,
    "        mfpts = lagtime * (np.diag(Z) - Z) / W",
    "        mfpts = (np.diag(Z) - Z) / W")
mut('C07','sinks-not-pinned',CO,
    "        committors[sinks] = 1.0\n",
    "        committors[sinks[:1]] = 1.0\n")
# ---- C08
TP='enspara/tpt/tpt.py'
mut('C08','scale-columns-dense',TP,
    "            tprob * ((populations * reverse_committors)[:, None]) \\\n            * forward_committors",
    "            tprob * ((populations * reverse_committors)[None, :]) \\\n            * forward_committors[:, None]")
mut('C08','keep-diagonal-sparse',TP,
    "    fluxes[(np.arange(n_states), np.arange(n_states))] = np.zeros(n_states)",
    "    if not sparse.issparse(fluxes):\n        fluxes[(np.arange(n_states), np.arange(n_states))] = np.zeros(n_states)")
mut('C08','abs-instead-of-positive-part',TP,
    "        net_fluxes[np.where(net_fluxes < 0)] = 0",
    "        net_fluxes = np.abs(net_fluxes)")
# ---- C09
mut('C09','accept-le',KM,
    "        if new_cost < old_cost:",
    "        if new_cost <= old_cost and not new_cost < old_cost * 0.5:")
mut('C09','index-committed-before-test',KM,
    "            old_cost = cost(distances)\n            new_cost = cost(new_dist)\n",
    "            old_cost = cost(distances)\n            new_cost = cost(new_dist)\n        medoid_inds[cid] = proposed_center_ind\n")
mut('C09','keep-new-labels-old-distances',KM,
    "            distances, assignments = new_dist, new_assig\n            medoid_coords = new_medoids",
    "            distances, assignments = new_dist, new_assig\n            medoid_coords = new_medoids\n        elif cid == 2:\n            assignments = new_assig")
mut('C09','propose-from-all-frames',KM,
    "        proposed_center_ind = random_state.choice(state_inds)",
    "        proposed_center_ind = random_state.choice(state_inds if len(state_inds) > 2 else len(X))")
# ---- C10
mut('C10','partition-boundary-ge',RA,
    "            if traj_len > index:",
    "            if traj_len >= index and not (traj_len == index == 0):")
mut('C10','find-centers-argmax',CU,
    "        ind = assigned_frames[np.argmin(distances[assigned_frames])]",
    "        ind = assigned_frames[np.argmin(distances[assigned_frames][::-1])]")
mut('C10','square-test-first-two',CU,
    "        square = all(lengths[0] == l for l in lengths)",
    "        square = all(lengths[0] == l for l in lengths[:3])")
# ---- C11
mut('C11','weak-connectivity',TM,
    "                                               connection=\"strong\",",
    "                                               connection=\"weak\",")
mut('C11','weight-is-size',TM,
    "    subgraph_pops = [np.sum(pops[labels == i])",
    "    subgraph_pops = [np.sum(labels == i)")
mut('C11','threshold-le',TM,
    "    thresholded_counts[counts < threshold] = 0",
    "    thresholded_counts[counts <= threshold] = 0")
mut('C11','pops-from-columns',TM,
    "    pops = counts.sum(axis=1)\n",
    "    pops = counts.sum(axis=0)\n")
# ---- C12
mut('C12','quadratic-sign',BU,
    "                    v = (-b + np.sqrt((b**2) - (4*a*c))) / (2*a)",
    "                    v = (-b + np.sqrt((b**2) + (4*a*c))) / (2*a)")
mut('C12','compiled-skips-diagonal','enspara/msm/libmsm.pyx',
    "            if (denom > 0):\n                X[i, i] = C[i, i] * (X_rs[i] - X[i, i]) / denom;",
    "            if (denom > 0 and i > 0):\n                X[i, i] = C[i, i] * (X_rs[i] - X[i, i]) / denom;")
mut('C12','pi-from-counts',BU,
    "    pi = X_rs / X_rs.sum()[..., None]",
    "    pi = C_rs / C_rs.sum()[..., None]")
# ---- C13
LD='enspara/geometry/libdist.pyx'
mut('C13','hamming-shared-accumulator',LD,
    "    cdef long i, j = 0\n\n    for i in prange(n_samples, nogil=True):\n        out[i] = 0\n        for j in range(n_features):\n            if y[j] != X[i, j]:\n                out[i] += 1\n        out[i] /= n_features",
    "    cdef long i, j = 0\n    cdef np.ndarray[np.float64_t, ndim=1] acc = np.zeros(1)\n\n    for i in prange(n_samples, nogil=True):\n        acc[0] = 0\n        for j in range(n_features):\n            if y[j] != X[i, j]:\n                acc[0] += 1\n        out[i] = acc[0] / n_features")
mut('C13','manhattan-transposed-index',LD,
    "            out[i] += fabs(<double>X[i, j] - <double>y[j])",
    "            out[i] += fabs(<double>X[i, j] - <double>y[j]) if n_samples != n_features else fabs(<double>X[j, i] - <double>y[j])")
mut('C13','euclid-reads-one-past',LD,
    "    for i in prange(n_samples, nogil=True):\n        for j in range(n_features):\n            # subtract as doubles: the element type overflows for\n            # wide-range int32/int64 (and float32) data\n            out[i] += (<double>X[i, j] - <double>y[j])**2",
    "    for i in prange(n_samples, nogil=True):\n        for j in range(n_features):\n            # subtract as doubles: the element type overflows for\n            # wide-range int32/int64 (and float32) data\n            out[i] += (<double>X[i, j] - <double>y[j])**2\n        out[i] += 0 * <double>X[i, n_features]")
mut('C13','skip-width-check-and-assert',None,None,None,edits=[
    {'file':LD,'old':"    if X.shape[1] != y.shape[0]:",'new':"    if X.shape[1] > y.shape[0]:"},
    {'file':LD,'old':"    cdef long n_samples = len(out)\n    cdef long n_features = len(y)\n    assert len(out) == X.shape[0]\n    assert n_features == X.shape[1]\n\n    cdef long i, j = 0\n    for i in prange(n_samples, nogil=True):\n        out[i] = 0\n\n    for i in prange(n_samples, nogil=True):\n        for j in range(n_features):\n            # subtract as doubles: the element type overflows for\n            # wide-range int32/int64 (and float32) data\n            out[i] += fabs(",
     'new':"    cdef long n_samples = len(out)\n    cdef long n_features = len(y)\n    assert len(out) == X.shape[0]\n    assert n_features >= X.shape[1]\n\n    cdef long i, j = 0\n    for i in prange(n_samples, nogil=True):\n        out[i] = 0\n\n    for i in prange(n_samples, nogil=True):\n        for j in range(n_features):\n            # subtract as doubles: the element type overflows for\n            # wide-range int32/int64 (and float32) data\n            out[i] += fabs("}])
# ---- C15
LO='enspara/util/load.py'
mut('C15','zfill-too-short',RA,
    "        n_zeros = len(str(len(array.lengths))) + 1",
    "        n_zeros = len(str(len(array.lengths))) - 1")
mut('C15','stride-floor-lengths',RA,
    "            lengths = [(shape[0] + stride - 1) // stride for shape in shapes]",
    "            lengths = [max(1, shape[0] // stride) for shape in shapes]")
mut('C15','offsets-inclusive',LO,
    "            zip([sum(lengths[0:i]) for i in range(len(lengths))],",
    "            zip([sum(lengths[0:i]) + (i > 6) for i in range(len(lengths))],")
mut('C15','sound-floor',LO,
    "    return math.ceil(n_frames / stride)",
    "    return max(1, n_frames // stride)")
# ---- C16
MS='enspara/msm/msm.py'
mut('C16','mmwrite-low-precision',MS,
    "                mmwrite(f, self.tprobs_, precision=20)",
    "                mmwrite(f, self.tprobs_, precision=8)")
mut('C16','ignore-max-n-states',MS,
    "            max_n_states=self.max_n_states,\n            lag_time=self.lag_time,",
    "            max_n_states=None,\n            lag_time=self.lag_time,")
mut('C16','spectrum-normalise-after-slice',TM,
    "    order = np.argsort(-np.real(vals))",
    "    order = np.argsort(-np.abs(vals))")
mut('C16','timescales-plus',"enspara/msm/timescales.py",
    "    imp_times = -lag_time / np.log(e_vals[1:])",
    "    imp_times = -lag_time / np.log(np.abs(e_vals[1:]))")
# ---- C17
PA='enspara/tpt/path.py'
mut('C17','pop-argmin',PA,
    "        test_node = queue.pop(min_fluxes[queue].argmax())",
    "        test_node = queue.pop(min_fluxes[queue].argmax() if len(queue) < 3 else min_fluxes[queue].argmin())")
mut('C17','subtract-on-caller-matrix',None,None,None,edits=[
    {'file':PA,'old':"    net_flux = copy.copy(net_flux)\n\n    paths = []",'new':"    paths = []"},
    {'file':PA,'old':"    net_flux = copy.copy(net_flux)\n\n    net_flux[path[:-1], path[1:]] -= net_flux[path[:-1], path[1:]].min()",
     'new':"    net_flux[path[:-1], path[1:]] -= net_flux[path[:-1], path[1:]].min()"}])
mut('C17','relax-with-edge-only',PA,
    "        new_fluxes[np.where(new_fluxes > min_fluxes[test_node])] = min_fluxes[test_node]",
    "        new_fluxes[np.where((new_fluxes > min_fluxes[test_node]) & (len(queue) < 3))] = min_fluxes[test_node]")
mut('C17','numpaths-gt',PA,
    "        if counter >= num_paths or expl_flux >= flux_cutoff:",
    "        if counter > num_paths or expl_flux >= flux_cutoff:")
# ---- C18
LI='enspara/info_theory/libinfo.pyx'; MI='enspara/info_theory/mutual_info.py'
mut('C18','jc-indexed-by-b-row',LI,
    "                jc[a_row, b_row, i, j] += 1",
    "                jc[a_row if n_a != n_b else b_row, b_row if n_a != n_b else a_row, i, j] += 1")
mut('C18','drop-max-assert-b',LI,
    "    assert b.max() < n_b, \"States indices must be contiguous.\"",
    "    assert b.max() <= n_b, \"States indices must be contiguous.\"")
mut('C18','marginal-wrong-axis',MI,
    "    n_obs_b_i = jc.sum(axis=-2)",
    "    n_obs_b_i = jc.sum(axis=-2) if jc.shape[-1] != jc.shape[-2] else jc.sum(axis=-1)")
mut('C18','ccn-swap',MI,
    "    min_num_states = np.fmin(*np.meshgrid(n_x, n_y, indexing='ij'))",
    "    min_num_states = np.fmax(*np.meshgrid(n_x, n_y, indexing='ij'))")
# ---- C19
mut('C19','bincount-empty',LI,
    "    cdef np.ndarray[np.uint32_t, ndim=4] jc = np.zeros(",
    "    cdef np.ndarray[np.uint32_t, ndim=4] jc = np.empty(")
mut('C19','mi-accumulator-empty',MI,
    "    mi = np.zeros(shape=jc.shape[0:2])",
    "    mi = np.empty(shape=jc.shape[0:2])")
mut('C19','ccn-drops-copy',MI,
    "    mi = mi.copy()\n\n    n_x = _validate_feature_states_array(n_x, mi.shape[0])",
    "    n_x = _validate_feature_states_array(n_x, mi.shape[0])")
mut('C19','entropy-out-empty','enspara/info_theory/entropy.py',
    "out=np.zeros(np.shape(p), dtype=float))",
    "out=np.empty(np.shape(p), dtype=float))")
mut('C19','euclid-no-zeroing',LD,
    "    for i in prange(n_samples, nogil=True):\n        out[i] = 0\n\n    for i in prange(n_samples, nogil=True):\n        for j in range(n_features):\n            # subtract as doubles: the element type overflows for\n            # wide-range int32/int64 (and float32) data\n            out[i] += (<double>X[i, j]",
    "    for i in prange(n_samples, nogil=True):\n        for j in range(n_features):\n            # subtract as doubles: the element type overflows for\n            # wide-range int32/int64 (and float32) data\n            out[i] += (<double>X[i, j]")
# ---- C20
RO='enspara/geometry/rotamer.py'
mut('C20','wrap-strict',RO,
    "        if (upper_bound <= new_angle <= lower_bound):",
    "        if (upper_bound <= new_angle <= lower_bound - 1):")
mut('C20','gate-swap',RO,
    "    if (upper_bound == 360):\n        upper_bound = 0",
    "    if (upper_bound == 360):\n        upper_bound = 0 if n_basins != 3 else 360")
mut('C20','rebin-from-previous-angle',RO,
    "            cur_state = np.digitize(new_angle, hard_boundaries) - 1",
    "            cur_state = np.digitize(cur_angle, hard_boundaries) - 1")
mut('C20','transitions-drop-minlength','enspara/cards/disorder.py',
    "        lengths = np.bincount(rows, minlength=len(assignments))",
    "        lengths = np.bincount(rows)")
# ---- C14
OP='enspara/mpi/ops.py'
mut('C14','owner-argmin',KC,
    "        new_cluster_center_owner = np.argmax(dist_vals)",
    "        new_cluster_center_owner = np.argmax(dist_vals) if len(center_inds) != 3 else np.argmin(dist_vals)")
mut('C14','convert-indices-wrong-stripe',OP,
    "        global_fid = file_origin_ra[rank::mpi.size()].flatten()[local_fid]",
    "        global_fid = file_origin_ra[rank::max(1, mpi.size() - (mpi.size() > 5))].flatten()[local_fid]")
mut('C14','mean-local-len',OP,
    "    global_len = mpi.comm.allreduce(local_len, op=mpi.mpi4py.SUM)",
    "    global_len = local_len * mpi.size()")
mut('C14','skip-bcast-on-owner',OP,
    "    mpi.comm.Bcast(frame, root=owner_rank)",
    "    if not (mpi.rank() == owner_rank and mpi.size() == 3):\n        mpi.comm.Bcast(frame, root=owner_rank)")
mut('C14','gather-offset',OP,
    "        global_arr[i::mpi.size()] = mpi.comm.bcast(local_arr, root=i)",
    "        global_arr[i::mpi.size()] = mpi.comm.bcast(local_arr, root=i)[::1 if i < 4 else -1]")
os.makedirs('/verif/vf/mutants', exist_ok=True)
for p, l in M.items():
    json.dump(l, open('/verif/vf/mutants/%s.json' % p, 'w'), indent=1)
print({p: len(l) for p, l in sorted(M.items())}, sum(len(l) for l in M.values()))
