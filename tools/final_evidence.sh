#!/bin/sh
# Regenerate every evidence file from quick-tier runs in /verif against /repo
# (VERIF_SEED=0), regenerate MANIFEST.json and validate both against the schemas.
cd /verif
[ -z "$(git -C /repo status --porcelain --untracked-files=no)" ] || { echo "/repo is dirty"; exit 2; }
rc_all=0
for p in C01 C02 C03 C04 C05 C06 C07 C08 C09 C10 C11 C12 C13 C14 C15 C16 C17 C18 C19 C20; do
  out=$(VERIF_SEED=0 ./check $p --tier quick 2>&1); rc=$?
  echo "$p rc=$rc $(echo "$out" | tail -1)"
  [ $rc -ne 0 ] && { rc_all=1; echo "$out" | grep -E "^(VIOLATION|INCONCLUSIVE)" | head -5; }
done
/venv/bin/python -m vf.manifest_gen
python3-vt - <<'PY'
import json, jsonschema, glob
m = json.load(open('/verif/MANIFEST.json'))
jsonschema.validate(m, json.load(open('/root/.vp/MANIFEST.schema.json')))
sc = json.load(open('/root/.vp/EVIDENCE.schema.json'))
n = 0
for f in sorted(glob.glob('/verif/evidence/C*.json')):
    jsonschema.validate(json.load(open(f)), sc); n += 1
print('MANIFEST valid; %d evidence files valid' % n)
PY
exit $rc_all
