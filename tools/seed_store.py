#!/usr/bin/env python3
"""seed_store.py <worktree> <seed-id> <property> <caught-by> "<needs>" : copy a confirmed
seeded change into /verif/seeded/<seed-id>/"""
import json, os, shutil, sys
wt, sid, prop, caught, needs = sys.argv[1:6]
d = os.path.join('/verif/seeded', sid)
os.makedirs(d, exist_ok=True)
for f in ('patch.diff', 'demo.py', 'NOTES.md'):
    shutil.copy(os.path.join(wt, '_seeded', f), os.path.join(d, f))
meta = {
 'property': prop, 'seed_id': sid,
 'origin': 'independent sub-agent given only the property text and a scratch worktree',
 'needs_to_manifest': needs,
 'confirmed_by_me': 'tools/seed_verify.sh <worktree>: demo exits non-zero with the patch, 0 without; '
                    'pinned tests (test_ra, test_tpt_fluxes, test_rotamer) 47 passed / 1 known failure with the patch',
 'demo_cmd': 'PYTHONPATH=<wt>/_stub:<wt> /venv/bin/python _seeded/demo.py (stub mpi4py raising ImportError; extensions built in place)',
 'check_result': caught,
}
json.dump(meta, open(os.path.join(d, 'meta.json'), 'w'), indent=1)
print('stored', d)
